HOOK_COMMITS = ["26208dd", "ff5844d", "59faccc", "3108dc6"]

check("C01", "model_checking",
      "Model: TLC checks PublishedMatchesTruth / BookkeepingGenuine on Tracer.tla for every configuration in SchedOK (all interleavings). Implementation: Every published round of thousands of real executions (real Builder/Tracer/Strategy/Channel/State over the simulated network) is compared slot by slot with simulator ground truth by the TLA+ monitor MonLoop (clauses C01_*), evaluated by TLC at every step.",
      TRUSTED, "TLC model checking of spec/Tracer.tla + TLC trace validation of harness event logs against TLA+ monitor clauses C01_Slots/Exact/RoundNo/Totals", "7 C01")
check("C03", "model_checking",
      "Model: TLC checks the action property NoiseIsNoOp and BookkeepingGenuine on Tracer.tla with duplicate/late/foreign/never-sent deliveries interleaved at every step (plus a non-vacuity instance that must fail). Implementation: Noise scenarios (duplicates, late, foreign, never-sent, unrelated ICMP) over many rounds incl. sequence wrap-around; the hook-logged projection of the private bookkeeping before/after every labelled delivery is compared by the TLA+ monitor (C03_NoOp, C03_Genuine) and publications are checked against ground truth.",
      TRUSTED, "TLC model checking of spec/Tracer.tla + TLC trace validation: C03_NoOp / C03_Genuine over hook projections + C01 clauses", "7 C03")
check("C06", "model_checking",
      "Model: TLC checks TtlOrder/TtlLimit/NoSendAfterTarget/NotBeyondEstablished/Window/RoundNonEmpty on Tracer.tla for all 1<=first<=max<=4, inflight 1..4, distance 0..4 and all arrival orders, plus TCP re-issue instances. Implementation: Scheduling clauses (TTL order, limit, no send after target, established distance, in-flight window, liveness) evaluated by TLC on every send event of real executions over random topologies incl. first-ttl up to 254 and max-inflight 1..255.",
      TRUSTED, "TLC model checking of spec/Tracer.tla + TLC trace validation: C06_Order/Limit/Target/Known/Window/Live", "7 C06")
check("C08", "model_checking",
      "Model: TLC checks PublishOnlyWhenAllowed/ReasonConsistent/HeldOpenBound/NextRoundStartsAtPublish on Tracer.tla with an explicit clock for all min<=max, grace, read-timeout in 0..3 ticks. Implementation: Round-timing clauses evaluated by TLC on every publication of real executions under the virtual clock (exact microsecond times), all orderings of min/max/grace/read-timeout including zeros.",
      TRUSTED, "TLC model checking of spec/Tracer.tla + TLC trace validation: C08_Allowed/Reason/Held/Start(+hook)", "7 C08")
check("C09", "model_checking",
      "Model: TLC checks ExactlyNRounds/PubNumbering/ErrorOnlyAfterFatal/FatalEnds/PublishedMatchesTruth on Tracer.tla with every send outcome (ok, failed, fatal, in-use) and receive failure at every step. Implementation: Random fault schedules (each transient kind, address-in-use, fatal, receive-side errors) injected at the socket layer of real executions; TLC evaluates termination, round numbering, error hand-off to snapshots, failed/skipped slots and re-issue.",
      TRUSTED, "TLC model checking of spec/Tracer.tla + TLC trace validation: C09_PubOrder/End/Classify/Reissue/NoPanic with the transient-kind table as a TLA+ operator", "7 C09")
check("C10", "model_checking",
      "Model: TLC checks RoundWellFormed/StablePathLength/NothingAnswered (the output contract of publish_trace) on Tracer.tla. Implementation: Hop-table clauses (gap-free range, own TTLs, target hop, true distance on stable paths, empty when nothing answered) evaluated by TLC on the snapshot after every round of real executions.",
      TRUSTED, "TLC model checking of spec/Tracer.tla + TLC trace validation: C10_Shape/Target/Distance/Nothing", "7 C10")

check("C05", "model_checking",
      "Model: TLC checks that the incremental aggregation (HopStats!Apply, shaped like StateUpdater) equals the declarative re-aggregation (HopStats!Agg) and satisfies the conservation laws for every sequence of rounds within bounds. Implementation: every round fed to the real State (synthetic rounds and rounds published by the real strategy over the simulated network) is applied to the specification by TLC and every getter of every hop of every snapshot is compared exactly (integers) or by cross-multiplied rationals (avg, javg, loss %, stddev).",
      TRUSTED + " Not decided: jinta (only finite / non-negative) and bit-exact floating point.",
      "TLC model checking of spec/HopStats.tla (Apply = Agg) + TLC trace validation with spec/mon/MonState.tla (C05_Exact/Derived/StdDev/Laws)", "7 C05")
check("C07", "model_checking",
      "Model: TLC explores the sequence allocator (SeqAlloc.tla, same operators as the full model) at the REAL constants 65535/512 from every reachable round-start sequence for boundary initial sequences and both maximum-sequence regimes. Implementation: TLC-generated walks (MC_SeqGen, -simulate) and random walks are replayed into the real private TracerState through the hook wrapper and the log of every call is validated by TLC; TCP collision storms through the simulated socket must end in a capacity error.",
      TRUSTED, "TLC model checking of spec/SeqAlloc.tla at real constants + replay of TLC-generated behaviours + TLC trace validation (spec/mon/MonSeq.tla, C07_* clauses of MonLoop)", "7 C07")
check("C15", "model_checking",
      "Model: TLC checks dense ids, bound, agreement and monotone extension of the flow registry (Flows.tla: Check/Merge/Register/Attribute transcribed) for every sequence of registrations within bounds. Implementation: TLC mirrors the registry and the per-flow statistics from the rounds fed to the real State and compares them after every round.",
      TRUSTED, "TLC model checking of spec/Flows.tla + TLC trace validation with spec/mon/MonState.tla (C15_* clauses)", "7 C15")
check("C19", "model_checking",
      "Model: TLC proves the implementation's per-round NAT fold equal to the declarative statement of the property for all paths of 6 hops with up to 3 rewriting devices and all sets of responding hops. Implementation: real IPv4/UDP/Dublin traces over simulated paths with rewriting devices and silent hops (and other configurations, which must report not-applicable); statuses are compared by TLC with simulator ground truth.",
      TRUSTED, "TLC model checking of spec/Nat.tla + TLC trace validation with spec/mon/MonState.tla (C19_Status/Truth/Model)", "7 C19")

check("C02", "model_checking",
      "Model: TLC checks on Wire.tla (Encode / Quote / Decode / Validate transcribed from probe_*_data, dispatch_*, ProtocolStrategyResponse::from and Strategy::validate) that every supported cell recovers exactly the sequence it encoded under every quotation variation, rejects every foreign variation and never confuses two probes of a round (boundary sequences quick, all 65535 thorough). Implementation: a systematic sweep cell x family x privilege x quotation form (8 octets, 28 octets, whole, RFC 4884 compliant / legacy with MPLS) x TOS rewrite through the real Channel and Strategy; TLC checks every genuine response completes exactly its probe and every foreign quotation is a no-op.",
      TRUSTED, "TLC model checking of spec/Wire.tla + TLC trace validation (C01_Exact, C03_NoOp, C11_Wire over the codec sweep)", "7 C02")
check("C11", "model_checking",
      "Every datagram handed to the send socket in the sweep (all cells, sizes 28/48..1024, tos, pattern, ttl, boundary initial sequences) is decoded by the independent RFC decoder and compared by TLC with the Wire!Encode table (target, TTL, TOS, DF, carrier field, identifier, size, pattern, length consistency, ICMP/UDP checksums).",
      TRUSTED, "TLC trace validation with the TLA+ Encode table as oracle (C11_Wire, C11_OneDatagram) + TLC model checking of spec/Wire.tla", "7 C11")

check("C12", "model_checking",
      "Weakest fit for the technique (pure bit layout), decided with a TLA+ table: Layout.tla holds every field's RFC position; TLC checks the tables tile the fixed headers and that SetInt is a lens; every set/get performed on the real views over random non-zero buffers is logged and TLC checks the header afterwards equals Layout!SetInt(before) (frame condition included), the value read back is the value truncated to the width, constructors succeed exactly from the minimum size.",
      TRUSTED, "TLC model checking of spec/Layout.tla lemmas + TLC trace validation with spec/mon/MonPacket.tla (C12_Get/Set/Frame/Ctor)", "7 C12")
check("C13", "model_checking",
      "Every checksum computed by the real codec over (pseudo header +) data is recomputed by TLC with Checksum!Rfc1071 over the logged 16-bit words and the datagram with the checksum inserted must fold to 0xFFFF; Paris datagrams captured from the real Channel must carry the sequence in the checksum field and verify; the swap lemma is model-checked for all 2^16 sequences.",
      TRUSTED, "TLC model checking of the Paris swap lemma (spec/Checksum.tla) + TLC trace validation with spec/mon/MonPacket.tla (C13_Value/Verifies/Paris)", "7 C13")

check("C14", "model_checking",
      "Model: TLC checks the transcribed RFC 4884 splitter (Ext!Split) for every length attribute x message length x word size: both parts inside the message, disjoint, compliant / legacy / plain messages recovered, object iteration bounded. Implementation: messages built from abstract descriptions by the independent builder are parsed with the real views (objects, MPLS members, EXP/S/TTL compared exactly; corruptions must stay in bounds and terminate) and end to end through the real receive path in both extension modes against the simulated router's ground truth.",
      TRUSTED, "TLC model checking of spec/Ext.tla + TLC trace validation with spec/mon/MonExt.tla (C14_Bounds/Terminates/Datagram/Objects) and MonLoop C14_E2E", "7 C14")

check("C04", "exploration",
      "The verdict (no panic, no arithmetic overflow, termination) comes from executing the real receive path and every view accessor under catch_unwind with overflow checks on; the specification contributes the structure (Ext.tla: the splitter and object walk stay in bounds for every length attribute x message length, model-checked) and the TLA+ monitor evaluates the aggregated results. Exhaustive single-octet x buffer-length sweeps around valid responses in all 12 configurations, 19 view types, seeded mutations, random bytes, and mutated responses through the full stack.",
      "Arbitrary byte strings are sampled, not enumerated. Trusted: the Rust panic machinery (catch_unwind), the harness.",
      "execution sweeps judged by TLC over aggregated logs (spec/mon/MonFuzz.tla) + TLC model checking of spec/Ext.tla", "7 C04")

check("C20", "model_checking",
      "Model: TLC explores every interleaving of the writer applying a round in sub-steps, readers cloning in sub-steps and the clearer under the RwLock discipline of tracer.rs; every completed snapshot equals the rounds applied since the last clear in lock order (the lock-free instance must fail). Implementation: real threads (tracer over the simulated socket, 3 snapshot readers, 1 clearer) record call start/end with an atomic sequence number; TLC searches for a linearization in which every snapshot is uniform (= k whole rounds) - the history is rejected otherwise.",
      "Implementation schedules are sampled, the model's are exhaustive. " + TRUSTED,
      "TLC model checking of spec/Snapshot.tla + TLC linearizability checking of recorded concurrent histories (spec/mon/MonSnap.tla)", "7 C20")

TUI_TRUSTED = ("The model is bound to the code in both directions: TLC-generated behaviours of Tui.tla are replayed through the real run_app and the resulting log is validated against Tui.tla itself (spec/conf/ConfTui.tla: every frame's selection state and displayed-data shape must equal the model's; a rejection is reported as MODEL-DRIFT, not as a violation). "
               "Trusted: the capturing ratatui backend and scripted crossterm event source of the harness, TLC. Hostname / AS / GeoIP text cannot be produced in the sandbox (no DNS, no database): address text stands in for them.")
check("C17", "model_checking",
      "Model: TLC checks DrawOK / NoFlowKeyCrash on Tui.tla (selection state machine of TuiApp + the tick/draw/key loop of run_app) for every interleaving of trace updates (longer paths, new flows, new addresses, clear) with every command, incl. frozen display. Implementation: thousands of scripted runs of the real run_app + TuiApp + all renderers over a capturing backend (random commands from the whole binding table incl. settings / help / chart / map / flows, trace updates, clears, several traces, resizes from 1x1 to 300x100); a panic anywhere is recorded and TLC checks on every frame that the selected hop, hop address, flow, trace and settings tab exist in the displayed data (MonTui C17_NoPanic / C17_Selection).",
      TUI_TRUSTED, "TLC model checking of spec/Tui.tla + TLC trace validation of the real event loop's frame log (spec/mon/MonTui.tla) + replay of TLC-generated scripts validated against Tui.tla (spec/conf/ConfTui.tla)", "7 C17")
check("C18", "model_checking",
      "Model: TLC checks PrivacyRange and the action property PrivacyStep on Tui.tla. Implementation: on every frame captured from the real renderers (table, details, chart, map, flows, help, settings; all address modes, max-addrs, column sets, terminal sizes) TLC checks that no address of a responding hop with TTL <= n and not the source address appears anywhere on screen (C18_Hidden), that hops above n are shown when the table is certainly visible (C18_Shown), and that expand / contract moved n by exactly one step between off, 0 and the hop count (C18_Step).",
      TUI_TRUSTED, "TLC model checking of spec/Tui.tla + TLC trace validation of captured frames (spec/mon/MonTui.tla C18_Hidden / C18_Shown / C18_Step)", "7 C18")
