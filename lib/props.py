"""Per-property check recipes (models, scenario families, monitors, evidence)."""
import json
import os

from vlib import ToolError, log, WORK

LOOP = "mon/MonLoop.tla"
CONF = ("conf/ConfLoop.tla", "ConfLoop.cfg")
MC = "mc/MC_Sched.tla"


def has_genuine(s):
    return s.get("delivered", {}).get("genuine", 0) > 0


def has_noise(s):
    d = s.get("delivered", {})
    return has_genuine(s) and any(d.get(k, 0) > 0 for k in ("dup", "late", "foreign", "never", "garbage"))


def has_fault(s):
    return s.get("faults_fired", 0) > 0


LOOP_ASSUME = [
    "the network is the simulator in harness/vh/src/sim.rs: routers answer the bytes the tracer really sent; Linux socket semantics; virtual clock",
    "ground-truth labels (genuine/dup/late/foreign/never) are assigned by the simulator, which knows which probe every delivery answers",
    "implementation thread schedule: single-threaded runs; times are exact virtual microseconds",
    "responses delayed by more than one whole round are not delivered: only the immediately preceding round's sequence numbers are kept apart from the current round's (C07), older ones may have been re-used legitimately"]


MODEL_RULE = ("model: TLC explores every interleaving of the tracer loop with the environment for every configuration record in the named set (spec/mc/MC_Sched.tla); "
              "implementation: ")


def c06(ctx):
    q = ctx.quick()
    ctx.model(MC, "MC_Sched_C06.cfg")
    ctx.model(MC, "MC_Tcp_C06.cfg")
    ctx.sim("sched", 250 if q else 4000, LOOP, "MonLoop_C06.cfg", nontrivial=has_genuine, conf=CONF)
    ctx.sim("loop", 150 if q else 3000, LOOP, "MonLoop_C06.cfg", seed_off=1, nontrivial=has_genuine, conf=CONF)
    # TCP port collisions: a re-issued probe keeps its TTL
    ctx.sim("fault", 200 if q else 3000, LOOP, "MonLoop_C06.cfg", seed_off=2, nontrivial=has_fault, conf=CONF)
    ctx.sim("storm", 40 if q else 400, LOOP, "MonLoop_C06.cfg", seed_off=3, nontrivial=has_fault, conf=CONF)
    ctx.write_evidence("model_checking", MODEL_RULE + "distinct (family, configuration cell, topology/ttl shape) of scenarios with >= 1 genuine response handed to the tracer",
                       assumptions=LOOP_ASSUME)


def c08(ctx):
    q = ctx.quick()
    ctx.model(MC, "MC_Timing_C08.cfg")
    ctx.sim("timing", 300 if q else 5000, LOOP, "MonLoop_C08.cfg", nontrivial=has_genuine, conf=CONF)
    ctx.sim("loop", 100 if q else 3000, LOOP, "MonLoop_C08.cfg", seed_off=1, nontrivial=has_genuine)
    ctx.write_evidence("model_checking", MODEL_RULE + "distinct (family, cell, shape) of scenarios with >= 1 genuine response", assumptions=LOOP_ASSUME)


def c01(ctx):
    q = ctx.quick()
    ctx.model(MC, "MC_Sched_C01.cfg")
    ctx.sim("loop", 400 if q else 10000, LOOP, "MonLoop_C01.cfg", nontrivial=has_genuine, conf=CONF)
    # outcomes and totals around send failures (failed / skipped / re-issued probes; failing socket operations take time)
    ctx.sim("fault", 200 if q else 4000, LOOP, "MonLoop_C01.cfg", seed_off=1, nontrivial=has_fault, conf=CONF)
    ctx.write_evidence("model_checking", MODEL_RULE + "distinct (family, cell, shape) of scenarios with >= 1 genuine response", assumptions=LOOP_ASSUME)


def c03(ctx):
    q = ctx.quick()
    ctx.model(MC, "MC_NoiseQ_C03.cfg" if q else "MC_NoiseMid_C03.cfg", timeout=3000)
    ctx.model(MC, "MC_F7.cfg", expect_violation="NoiseIsNoOp", label="MC_F7 (non-vacuity)")
    ctx.sim("noise", 300 if q else 6000, LOOP, "MonLoop_C03.cfg", nontrivial=has_noise, conf=CONF)
    ctx.write_evidence("model_checking", MODEL_RULE + "distinct (family, cell, shape) of scenarios with >= 1 genuine and >= 1 noise delivery (dup/late/foreign/never/garbage)",
                       assumptions=LOOP_ASSUME)


def c09(ctx):
    q = ctx.quick()
    ctx.model(MC, "MC_Fault_C09.cfg")
    ctx.sim("fault", 400 if q else 8000, LOOP, "MonLoop_C09.cfg", nontrivial=has_fault, conf=CONF)
    ctx.sim("loop", 100 if q else 2000, LOOP, "MonLoop_C09.cfg", seed_off=1, nontrivial=has_genuine)
    ctx.write_evidence("model_checking", MODEL_RULE + "distinct (family, cell, shape) of scenarios in which >= 1 injected fault fired (fault family) or >= 1 response arrived (loop family)",
                       assumptions=LOOP_ASSUME)


def c10(ctx):
    q = ctx.quick()
    ctx.model(MC, "MC_Sched_C10.cfg")
    # the route changes after the first round (longer / shorter / unreachable, silent routers before the target)
    ctx.model(MC, "MC_Sched_C10_growq.cfg" if q else "MC_Sched_C10_grow.cfg", workers=8)
    ctx.model(MC, "MC_Sched_C10_strict.cfg", workers=4, expect_violation="EstablishedBeyondRouters",
              label="MC_Sched_C10_strict (non-vacuity: reset only by a router strictly beyond the established distance)")
    ctx.sim("loop", 300 if q else 8000, LOOP, "MonLoop_C10.cfg", nontrivial=has_genuine)
    ctx.sim("sched", 100 if q else 2000, LOOP, "MonLoop_C10.cfg", seed_off=1, nontrivial=has_genuine)
    # probes that failed to send are probes too (the lowest ttl ever probed); route changes to a path of another length
    ctx.sim("fault", 150 if q else 3000, LOOP, "MonLoop_C10.cfg", seed_off=2, nontrivial=has_fault)
    ctx.sim("grow", 60 if q else 1500, LOOP, "MonLoop_C10.cfg", seed_off=3, nontrivial=has_genuine)
    ctx.write_evidence("model_checking", MODEL_RULE + "distinct (family, cell, shape) of scenarios with >= 1 genuine response", assumptions=LOOP_ASSUME)


def c07(ctx):
    q = ctx.quick()
    SEQ = "mc/MC_Seq.tla"
    ctx.model(SEQ, "MC_Seq_udp.cfg" if q else "MC_Seq_udp_all.cfg", workers=12)
    ctx.model(SEQ, "MC_Seq_tcp.cfg", workers=12)
    ctx.model(SEQ, "MC_Seq_tcp_low.cfg", workers=12)
    ctx.model(SEQ, "MC_Seq_F6.cfg", workers=4, expect_violation="NoPrevReissuedA", label="MC_Seq_F6 (known finding F6)")
    # spec -> impl: TLC-generated walks replayed into the real TracerState, then impl -> spec: the log is validated
    walks = os.path.join(WORK, "runs", "C07-walks.txt")
    os.makedirs(os.path.dirname(walks), exist_ok=True)
    gen_walks(ctx, walks, 60 if q else 600)
    ctx.sim("seqwalk", 8 if q else 90, "mon/MonSeq.tla", "MonSeq.cfg", subcmd="seqwalk", extra_args=["--walks", walks], batch=15 if not q else 8)
    ctx.sim("storm", 120 if q else 1500, LOOP, "MonLoop_C07.cfg", nontrivial=has_fault, conf=CONF)
    # long runs through the real dispatch: the Dublin / IPv6 payload derived from the sequence offset must fit its buffer,
    # and every regime crosses its wrap-around point
    ctx.sim("long", 8 if q else 120, LOOP, "MonLoop_C07.cfg", seed_off=4, nontrivial=has_genuine, conf=CONF, batch=4 if q else 20)
    ctx.write_evidence("model_checking", "model: SeqAlloc.tla at the real constants (65535 / 512), every round size in the named set from every reachable round-start sequence; "
                       "implementation: distinct (regime, initial sequence, walk length) walks over the real TracerState + distinct TCP collision-storm scenarios in which the fault fired",
                       assumptions=LOOP_ASSUME + ["walks call the private TracerState through the add-only verif-hooks wrapper TracerStateProbe"])


def gen_walks(ctx, path, num):
    import subprocess
    from vlib import SPEC, JAVA_OPTS
    out = []
    for cfg in ("MC_SeqGen_udp.cfg", "MC_SeqGen_tcp.cfg"):
        env = dict(os.environ, JAVA_TOOL_OPTIONS=JAVA_OPTS)
        meta = os.path.join(WORK, "tlc", "C07-gen-" + cfg)
        r = subprocess.run(["timeout", "300", "tlc", "-workers", "1", "-simulate", "num=%d" % num, "-depth", "41", "-seed", str(ctx.seed),
                            "-metadir", meta, "-noGenerateSpecTE", "-config", cfg, "MC_SeqGen.tla"],
                           cwd=os.path.join(SPEC, "mc"), env=env, stdout=subprocess.PIPE, stderr=subprocess.STDOUT, text=True)
        lines = [l for l in r.stdout.splitlines() if l.startswith('<<"WALK"')]
        if not lines:
            raise ToolError("TLC produced no walks (%s): %s" % (cfg, r.stdout[-800:]))
        out += lines
        import shutil
        shutil.rmtree(meta, ignore_errors=True)
    with open(path, "w") as f:
        f.write("\n".join(out) + "\n")
    ctx.cov["tlc_generated_behaviours_replayed"] = len(out)
    log("gen   %d TLC-generated walks (MC_SeqGen, -simulate) to replay into the real TracerState" % len(out))


STATE = "mon/MonState.tla"
STATE_ASSUME = ["synthetic rounds satisfy RoundWellFormed (largest_ttl is 0 or within [first-ttl, 254]; live probes have consecutive TTLs from first-ttl), the TLC-checked output contract of publish_trace",
                "float getters are logged in fixed point (x16 microseconds, x1000 percent) and compared with the exact rational by cross-multiplication; jinta is only required to be finite and non-negative",
                "stddev is checked while the sums fit 32-bit integers: RTTs that are multiples of 100us up to 10ms, at most 20 samples per hop (sd family)"]


def c05(ctx):
    q = ctx.quick()
    # growth (drift only): the report modes print the statistics this property is about - JSON / CSV / Markdown rows and
    # the flows listing are parsed back from the captured standard output and validated against Report.tla
    ctx.sim("report", 300 if q else 6000, "conf/ConfReport.tla", "ConfReport.cfg", package="vt", subcmd="report", batch=100 if q else 1000,
            seed_off=7, drift_only=True)
    H = "mc/MC_HopStats.tla"
    ctx.model(H, "MC_HopStats_a.cfg", workers=12)
    ctx.model(H, "MC_HopStats_loss.cfg", workers=12)
    ctx.model(H, "MC_HopStats_nat.cfg", workers=4)
    if not q:
        ctx.model(H, "MC_HopStats_b.cfg", workers=12, timeout=3000)
    ctx.sim("state", 150 if q else 3000, STATE, "MonState_C05.cfg", subcmd="state")
    ctx.sim("sd", 100 if q else 2000, STATE, "MonState_C05.cfg", subcmd="state", seed_off=1)
    ctx.sim("loop", 150 if q else 3000, STATE, "MonState_C05.cfg", seed_off=2, nontrivial=has_genuine, extra_args=["--snap", "full"])
    ctx.write_evidence("model_checking", "model: MC_HopStats - Apply*(rounds) = Agg(rounds) and the conservation laws for every sequence of rounds over the option alphabet of the instance; "
                       "implementation: distinct (sample limit, flow limit, first-ttl class, nat) x (rounds, branches, length) plans of synthetic rounds + distinct simulated-network scenarios, every hop of every snapshot compared",
                       assumptions=LOOP_ASSUME + STATE_ASSUME)


def c15(ctx):
    q = ctx.quick()
    ctx.model("mc/MC_Flows.tla", "MC_Flows.cfg", workers=12)
    CF = (STATE, "MonState_C15conf.cfg")
    ctx.sim("state", 200 if q else 4000, STATE, "MonState_C15.cfg", subcmd="state", conf=CF)
    ctx.sim("loop", 200 if q else 4000, STATE, "MonState_C15.cfg", seed_off=2, nontrivial=has_genuine, extra_args=["--snap", "full"], conf=CF)
    ctx.sim("fault", 100 if q else 1500, STATE, "MonState_C15.cfg", seed_off=3, nontrivial=has_fault, extra_args=["--snap", "full"], conf=CF)
    ctx.write_evidence("model_checking", "model: MC_Flows - every sequence of registrations of every flow over the alphabet (dense ids, bound, agreement, monotone extension); "
                       "implementation: distinct plans / scenarios (ECMP branches, unknown hops, failed probes, first-ttl > 1, max-flows 1..64), registry and per-flow statistics compared after every round",
                       assumptions=LOOP_ASSUME + STATE_ASSUME)


def c19(ctx):
    q = ctx.quick()
    ctx.model("mc/MC_Nat.tla", "MC_Nat.cfg", workers=4)
    ctx.model("mc/MC_HopStats.tla", "MC_HopStats_nat.cfg", workers=4)
    ctx.sim("nat", 250 if q else 5000, STATE, "MonState_C19.cfg", nontrivial=has_genuine)
    ctx.sim("state", 100 if q else 2000, STATE, "MonState_C19.cfg", subcmd="state", seed_off=1)
    ctx.write_evidence("model_checking", "model: MC_Nat - the per-round fold equals the declarative statement for every path of 6 hops with <= 3 rewriting devices and every set of responding hops; "
                       "implementation: distinct NAT scenarios (device positions, silent hops, port directions, sizes) over the real IPv4 codec, statuses compared with simulator ground truth",
                       assumptions=LOOP_ASSUME + ["the simulated translating device rewrites the quoted UDP checksum as a real NAT does (recomputed for the translated source) and restores addresses/ports in the quotation"])


def c02(ctx):
    q = ctx.quick()
    ctx.model("mc/MC_Wire.tla", "MC_Wire.cfg" if q else "MC_Wire_all.cfg", workers=12, timeout=3000)
    ctx.sim("codec", 560 if q else 14000, LOOP, "MonLoop_C02.cfg", nontrivial=has_noise, conf=CONF)
    ctx.sim("noise", 100 if q else 2000, LOOP, "MonLoop_C02.cfg", seed_off=1, nontrivial=has_noise, extra_args=[])
    # many rounds: the sequence offset of every regime crosses the buffer size and the wrap-around point
    ctx.sim("long", 8 if q else 120, LOOP, "MonLoop_C02.cfg", seed_off=2, nontrivial=has_genuine, conf=CONF, batch=4 if q else 20)
    # beyond the property: the channel's table of pending TCP connects (TcpTable.tla) - take / expire / evict, drift only
    ctx.model("mc/MC_TcpTable.tla", "MC_TcpTable.cfg", workers=6)
    ctx.model("mc/MC_TcpTable.tla", "MC_TcpTable_noevict.cfg", workers=2, expect_violation="Bounded", label="MC_TcpTable_noevict (the defect repaired by F11 must show)")
    ctx.sim("tcp", 45 if q else 900, "conf/ConfTcp.tla", "ConfTcp.cfg", seed_off=4, extra_args=["--snap", "none"], drift_only=True, batch=45 if q else 150)
    # UDP paris / dublin without privileges (F28): refused at start, or every genuine response recognised
    ctx.sim("unpriv", 24 if q else 240, LOOP, "MonLoop_C02.cfg", seed_off=3)
    ctx.write_evidence("model_checking", "model: MC_Wire - Decode(Quote(Encode(p), v)) = p.seq, acceptance, rejection of every foreign variation and injectivity for every supported cell x sequence in the named set x quotation variation; "
                       "implementation: distinct (cell, quotation form/topology shape) scenarios of the systematic sweep in which genuine and foreign responses were delivered: every genuine response must complete exactly its probe, every foreign one must be a no-op, and the bytes on the wire must equal Wire!Encode",
                       assumptions=LOOP_ASSUME + ["the byte -> field abstraction is the independent decoder in harness/vh/src/wire.rs (trusted)"])


def c11(ctx):
    q = ctx.quick()
    ctx.model("mc/MC_Wire.tla", "MC_Wire.cfg", workers=12)
    ctx.sim("codec", 840 if q else 14000, LOOP, "MonLoop_C11.cfg", nontrivial=lambda s: s.get("wire", 0) > 0)
    # re-issued TCP probes (address in use) and probes sent around failures are probes on the wire too
    ctx.sim("fault", 200 if q else 3000, LOOP, "MonLoop_C11.cfg", seed_off=1, extra_args=["--log-wire", "--snap", "none"], nontrivial=has_fault)
    ctx.sim("storm", 30 if q else 300, LOOP, "MonLoop_C11.cfg", seed_off=2, extra_args=["--log-wire", "--snap", "none"], nontrivial=has_fault)
    ctx.write_evidence("model_checking", "model: MC_Wire (the Encode table is the oracle); implementation: distinct (cell, shape) scenarios of the systematic sweep (cell x family x privilege x sizes 28/48..1024 x tos x pattern x boundary initial sequences) with >= 1 datagram on the wire, every datagram decoded by the independent decoder and compared with Wire!Encode",
                       assumptions=LOOP_ASSUME + ["the byte -> field abstraction (lengths consistent, RFC 1071 sums, pattern) is the independent decoder in harness/vh/src/wire.rs (trusted)",
                                                  "for sockets without IP_HDRINCL the simulator synthesises the IP/UDP/TCP header a Linux kernel would emit from the recorded socket options"])


PKT = "mon/MonPacket.tla"
EXTM = "mon/MonExt.tla"


def c04(ctx):
    q = ctx.quick()
    FZ = "mon/MonFuzz.tla"
    # the length arithmetic of the receive path is modelled in Ext.tla (splitter, object walk): in-bounds for every
    # length attribute x message length
    ctx.model("mc/MC_Ext.tla", "MC_Ext.cfg", workers=12)
    ctx.sim("views", 3000 if q else 100000, FZ, "MonFuzz.cfg", subcmd="packet", batch=10**9)
    ctx.sim("recv" if q else "recv_all", 2000 if q else 40000, FZ, "MonFuzz.cfg", subcmd="packet", batch=10**9, seed_off=1)
    ctx.sim("fuzzloop", 220 if q else 4000, LOOP, "MonLoop_C04.cfg", seed_off=2, nontrivial=lambda s: s.get("delivered", {}).get("garbage", 0) > 0)
    ctx.sim("ext", 300 if q else 5000, "mon/MonExt.tla", "MonExt_C14.cfg", subcmd="packet", batch=4000, seed_off=3)
    n_inputs = 0
    for fam in ("views", "recv", "recv_all"):
        pth = os.path.join(WORK, "runs", "C04-%s" % fam, "b0.ndjson")
        if os.path.exists(pth):
            for l in open(pth):
                try:
                    e = json.loads(l)
                except ValueError:
                    continue
                if e.get("e") == "fz":
                    n_inputs += e.get("n", 0)
    ctx.cov["inputs_executed"] = n_inputs
    ctx.write_evidence("exploration", "every value of every octet of the structural prefix (outer IP, ICMP, nested IP, nested transport header, 128-octet boundary, extension tail) of 5 valid responses x truncation / extension lengths, seeded mutations and random byte strings, fed to the real Channel::recv_probe in all 12 protocol x family x extension-mode configurations; "
                       "every accessor / iterator / Debug of 19 view types over every value of each of the first 16 octets x 70 buffer lengths from the minimum size + random buffers; mutated responses through the full stack (fuzzloop); distinct = (target, configuration or view type) with >= 1 input executed; inputs_executed is the number of inputs",
                       assumptions=["the verdict (no panic / overflow / non-termination) necessarily comes from executing the code; the harness is built with overflow-checks = on and debug-assertions = off; iteration is capped at 4096 steps and exceeding it is reported as a panic",
                                    "arbitrary byte strings are sampled, not enumerated; only single-octet deviations from valid responses are swept exhaustively against buffer lengths"])


def c20(ctx):
    q = ctx.quick()
    ctx.model("mc/MC_Snapshot.tla", "MC_Snapshot.cfg", workers=8)
    ctx.model("mc/MC_Snapshot.tla", "MC_Snapshot_NoLock.cfg", workers=4, expect_violation="SnapshotAtomic", label="MC_Snapshot_NoLock (non-vacuity)")
    ctx.sim("snap", 12 if q else 90, "mon/MonSnap.tla", "MonSnap.cfg", subcmd="snap", batch=3, extra_args=["--pause-us", "20"],
            nontrivial=lambda s: s.get("events", 0) > 100, par=4)
    ctx.write_evidence("model_checking", "model: Snapshot.tla - every interleaving of the writer's sub-steps, 2 readers' sub-steps and the clearer under the RwLock discipline (and the lock-free instance, which must fail); "
                       "implementation: distinct concurrent runs (real tracer thread over the simulated socket + 3 reader threads + 1 clearer thread, 1200-2000 rounds each) whose call histories TLC checks for linearizability against 'rounds applied since the last clear'",
                       assumptions=["implementation thread schedules are sampled (real threads, a hook-provided pause between the per-flow updates widens the window); only the model's schedules are exhaustive",
                                    "events are ordered by a process-wide atomic sequence number taken before a call starts and after it returns, never by wall-clock time",
                                    "all rounds of a run have the same shape, so 'k whole rounds applied to an empty state' is 'every count equals k'"])


def c14(ctx):
    q = ctx.quick()
    ctx.model("mc/MC_Ext.tla", "MC_Ext.cfg", workers=12)
    ctx.sim("ext", 800 if q else 20000, EXTM, "MonExt_C14.cfg", subcmd="packet", batch=4000, conf=(EXTM, "MonExt_conf.cfg"))
    ctx.sim("codec", 560 if q else 8000, LOOP, "MonLoop_C14.cfg", seed_off=1, nontrivial=has_genuine)
    ctx.write_evidence("model_checking", "model: MC_Ext - the transcribed RFC 4884 splitter keeps the quoted datagram and the extension inside the message and disjoint for every length attribute 0..255 x message length 0..1016 x both word sizes, recovers compliant / legacy / plain messages, and object iteration is bounded; "
                       "implementation: distinct messages built from abstract descriptions (family, TE/DU, form, original-datagram length incl. >= 256 octets, 0..3 objects, MPLS stacks of 0..4 members) parsed with the real views, 4 corruptions each, plus end-to-end sweeps through the real receive path in both extension modes compared with the router's ground truth",
                       assumptions=LOOP_ASSUME + ["messages are produced by the independent builder in harness/vh/src/wire.rs (RFC 4884 sections 4-5, RFC 4950)",
                                                  "a message with a zero length attribute and more than 132 octets after the ICMP header is read by the legacy convention (octets beyond 128 are the extension): that ambiguity is inherent to RFC 4884 and no claim is made for it"])



def c12(ctx):
    q = ctx.quick()
    ctx.model("mc/MC_Packet.tla", "MC_Packet_q.cfg" if q else "MC_Packet.cfg", workers=12, timeout=3000)
    ctx.sim("fields" if q else "fields16", 40 if q else 400, PKT, "MonPacket_C12.cfg", subcmd="packet", batch=100000)
    ctx.write_evidence("model_checking", "model: MC_Packet - the RFC layout tables tile each fixed header without overlap and SetInt satisfies read-after-write / idempotence / frame for every value; "
                       "implementation: distinct (packet type, field) pairs, each written and read back through the real view over random non-zero buffers for every value up to 8 bits (incl. values wider than the field), boundary + seeded values for wider fields (all 65536 values of 16-bit fields in the thorough tier), plus constructors at every length around the minimum; TLC compares the resulting header with Layout!SetInt",
                       assumptions=["the RFC field positions are the table in spec/Layout.tla (transcribed from RFC 791, 8200, 768, 9293, 792, 4443, 4884, 4950)",
                                    "ICMPv6 DestinationUnreachable.next_hop_mtu is not an RFC field; its position is taken as implemented"])


def c13(ctx):
    q = ctx.quick()
    ctx.model("mc/MC_Packet.tla", "MC_Packet_q.cfg" if q else "MC_Packet.cfg", workers=12, timeout=3000)
    ctx.sim("ck", 300 if q else 6000, PKT, "MonPacket_C13.cfg", subcmd="packet", batch=100000)
    ctx.sim("paris" if q else "paris_all", 1, PKT, "MonPacket_C13.cfg", subcmd="packet", seed_off=1, batch=100000)
    ctx.sim("codec", 280 if q else 3000, LOOP, "MonLoop_C11.cfg", seed_off=2, nontrivial=lambda s: s.get("wire", 0) > 0)
    ctx.write_evidence("model_checking", "model: MC_Packet - the Paris swap (checksum field := sequence, payload := displaced checksum) verifies for every sequence in the set x port pairs; "
                       "implementation: distinct checksum inputs (kind x payload length 0..1024 odd/even x random / all-ones / carry-maximising / zero contents x address pairs) whose words TLC sums with Checksum!Rfc1071, plus Paris datagrams captured from the real Channel for every sequence in the set x both families x 3 port pairs",
                       assumptions=["the words handed to TLA are the pseudo header as the RFCs define it followed by the datagram with a zeroed checksum field",
                                    "for Paris datagrams outside the sampled subset the verification flag comes from the independent decoder, not from TLA"])


TUI = "mon/MonTui.tla"
TUI_ASSUME = ["trace data is injected as published rounds (Tracer::verif_apply_round) into non-running tracers; keys, ticks and resizes are scripted through the cfg-switched crossterm event source of run_app; frames are captured from a ratatui backend",
              "hostnames, AS and GeoIP text are not resolvable in the sandbox (no DNS, no mmdb), so the leak clauses are decided on IP address text (addresses also stand in for hostnames, which default to the address)",
              "an address that several hops of the displayed data share (a target reached at different distances as the path changes) is attributed to none of them: it may be hidden in one row and must be shown in another; the address of the displayed trace's own target is reported separately (finding F13)",
              "terminal sizes 1x1 .. 300x100; column sets are the default and three custom sets (27 custom columns make the cassowary layout of ratatui run for minutes and are excluded)"]


def gen_scripts(ctx, k, num):
    """TLC -simulate over MC_TuiGen: one script (data updates, keys, ticks) per behaviour of Tui.tla."""
    import subprocess, shutil
    from vlib import SPEC, JAVA_OPTS
    path = os.path.join(WORK, "runs", "%s-scripts-%d.txt" % (ctx.prop, k))
    os.makedirs(os.path.dirname(path), exist_ok=True)
    meta = os.path.join(WORK, "tlc", "%s-tuigen-%d" % (ctx.prop, k))
    env = dict(os.environ, JAVA_TOOL_OPTIONS=JAVA_OPTS)
    r = subprocess.run(["timeout", "600", "tlc", "-workers", "1", "-simulate", "num=%d" % num, "-depth", "250", "-seed", str(ctx.seed),
                        "-metadir", meta, "-noGenerateSpecTE", "-config", "MC_TuiGen_%d.cfg" % k, "MC_TuiGen.tla"],
                       cwd=os.path.join(SPEC, "mc"), env=env, stdout=subprocess.PIPE, stderr=subprocess.STDOUT, text=True)
    lines = sorted(set(l for l in r.stdout.splitlines() if l.startswith('<<"SCRIPT"')))
    shutil.rmtree(meta, ignore_errors=True)
    if not lines:
        raise ToolError("TLC produced no scripts (MC_TuiGen_%d): %s" % (k, r.stdout[-800:]))
    with open(path, "w") as f:
        f.write("\n".join(lines) + "\n")
    ctx.cov["tlc_generated_behaviours_replayed"] = ctx.cov.get("tlc_generated_behaviours_replayed", 0) + len(lines)
    log("gen   %d TLC-generated scripts (MC_TuiGen_%d, -simulate) to replay into the real run_app" % (len(lines), k))
    return path, len(lines)


def tui_common(ctx, cfg, fams):
    q = ctx.quick()
    ctx.model("mc/MC_Tui.tla", "MC_Tui_1.cfg", workers=12, timeout=1500)
    ctx.model("mc/MC_Tui.tla", "MC_Tui_2.cfg", workers=8)
    # spec -> impl -> spec: behaviours of Tui.tla replayed into the real event loop; the log is checked by the
    # property monitor and validated against Tui.tla itself (ConfTui)
    # directed scripts: the counterexamples TLC found on Tui.tla / Hosts.tla for defects since repaired (F21, F22, F27), and
    # the boundary walks of Settings.tla (every tab: past the last item, the column editor at the last and the first row)
    reg = os.path.join(os.path.dirname(os.path.abspath(__file__)), "..", "spec", "mc", "tui_directed.scripts")
    ctx.sim("script0", sum(1 for _ in open(reg)), TUI, cfg, package="vt", subcmd="tui", batch=10 ** 9, env={"VT_SCRIPTS": os.path.abspath(reg)},
            conf=("conf/ConfSettings.tla", "ConfSettings.cfg"))
    for k in (1, 2):
        path, n = gen_scripts(ctx, k, 60 if q else 1500)
        ctx.sim("script%d" % k, n, TUI, cfg, package="vt", subcmd="tui", batch=10 ** 9, seed_off=k,
                env={"VT_SCRIPTS": path}, conf=("conf/ConfTui.tla", "ConfTui_%d.cfg" % k))
    for i, (fam, nq, nt) in enumerate(fams):
        ctx.sim(fam, nq if q else nt, TUI, cfg, package="vt", subcmd="tui", batch=40, seed_off=10 + i, par=8,
                conf=("conf/ConfSettings.tla", "ConfSettings.cfg"))


def c17(ctx):
    ctx.model("mc/MC_Hosts.tla", "MC_Hosts.cfg", workers=2)
    ctx.model("mc/MC_Hosts.tla", "MC_Hosts_legacy.cfg", workers=2, expect_violation="LimitOK", label="MC_Hosts_legacy (the defect repaired by F27 must show)")
    ctx.model("mc/MC_Settings.tla", "MC_Settings.cfg", workers=4)
    ctx.model("mc/MC_Settings.tla", "MC_Settings_bad.cfg", workers=2, expect_violation="ItemOK", label="MC_Settings_bad (non-vacuity: a declared item count above the rendered rows)")
    tui_common(ctx, "MonTui_C17.cfg", [("tui", 240, 6000), ("long", 8, 200)])
    if "F24" in ctx.known and "F24" not in ctx.known_printed:
        # F24 depends on the process's hash seed: it is listed whether or not this run happened to hit it
        ctx.known_printed.add("F24")
        log("KNOWN-FINDING: property=C17 F24 %s (not observed in this run)" % ctx.known["F24"]["what"])
    ctx.write_evidence("model_checking", "model: Tui.tla - every interleaving of trace updates (longer paths, new flows, new addresses, clear) with every command of the selection state machine and the loop's tick/draw, 1 trace x 2 flows x 3 hops and 2 traces x 1 flow x 2 hops: every drawn frame's indices exist in the displayed data; "
                       "implementation: distinct scripted runs of the real run_app + TuiApp + renderers (random keys from the whole binding table, trace updates, clears, resizes 1x1..300x100; plus TLC-generated scripts) each frame's selection state checked against the displayed data by TLC",
                       assumptions=TUI_ASSUME)


def c18(ctx):
    tui_common(ctx, "MonTui_C18.cfg", [("privacy", 240, 6000), ("tui", 80, 2000)])
    # beyond the property: the lazy reverse-DNS cache behind the hostnames (DnsCache.tla), the real resolver thread in real time
    ctx.model("mc/MC_DnsCache.tla", "MC_DnsCache.cfg", workers=4)
    ctx.sim("dns", 6 if ctx.quick() else 48, "conf/ConfDns.tla", "ConfDns.cfg", seed_off=9, package="vt", subcmd="dns", drift_only=True, batch=6)
    ctx.write_evidence("model_checking", "model: Tui.tla - the privacy level stays within off, 0..hop count and moves one step per command in every reachable state; "
                       "implementation: distinct scripted runs of the real event loop and renderers; on every captured frame TLC checks that no address of a responding hop with TTL <= n nor the source address is on screen, that hops above n are on screen when the table is certainly visible, and that expand / contract moved n by exactly one step",
                       assumptions=TUI_ASSUME)


CFGM = "mon/MonCfg.tla"


def c16(ctx):
    q = ctx.quick()
    ctx.model("mc/MC_Config.tla", "MC_Config.cfg", workers=8)
    ctx.model("mc/MC_Config.tla", "MC_Config_legacy.cfg", workers=4, expect_violation="AcceptedLegacy", label="MC_Config_legacy (the defect repaired by F28 must show)")
    # precedence: every option x layer state x values over random backgrounds, through the real Args / ConfigFile / build_config
    ctx.sim("layer", 6 if q else 60, CFGM, "MonCfg_C16.cfg", package="vt", subcmd="cfg", batch=3 if q else 10)
    # builder alone (library users): boundary values of every builder parameter, whatever build() accepts is run
    ctx.sim("cfgrun", 1500 if q else 30000, CFGM, "MonCfg_C16.cfg", seed_off=1, batch=500, extra_args=["--snap", "none"],
            conf=(CFGM, "MonCfg_conf.cfg"))
    # command line, then builder: random CLI + file configurations incl. boundary and invalid values; the accepted ones are
    # projected onto the builder as start_tracer does and run over the simulated network
    import subprocess
    d = os.path.join(WORK, "runs", "C16-cligen")
    os.makedirs(d, exist_ok=True)
    scen = os.path.join(d, "accepted.scenarios.jsonl")
    n = 1500 if q else 30000
    r = subprocess.run([ctx.bin("vt"), "cfg", "--family", "clirun", "--seed", str(ctx.seed * 1000 + 7), "--n", str(n),
                        "--out", os.path.join(d, "cli.ndjson"), "--stats", os.path.join(d, "cli.stats.json"), "--emit-scenarios", scen],
                       stdout=subprocess.PIPE, stderr=subprocess.STDOUT, text=True, timeout=3000)
    if r.returncode != 0:
        raise ToolError("vt cfg clirun failed: %s" % r.stdout[-2000:])
    acc = sum(1 for _ in open(scen))
    ctx.cov["cli_configurations_tried"] = n
    ctx.cov["cli_configurations_accepted_and_run"] = acc
    log("gen   %d random CLI+file configurations, %d accepted by the command-line layer -> run over the simulated network" % (n, acc))
    ctx.sim("clirun", acc, CFGM, "MonCfg_C16.cfg", seed_off=2, scenarios_file=scen, extra_args=["--snap", "none"], conf=(CFGM, "MonCfg_conf.cfg"))
    ctx.write_evidence("model_checking", "model: Config.tla - over the boundary values of every builder parameter (226 800 configurations) whatever passes Builder::build and the start-up checks lies in the domain of the core, and the layering operator is a function of the option's own three inputs; "
                       "implementation: distinct (option, layer state, values, background) cases through the real Args / ConfigFile / build_config whose effective value TLC compares with Layer(cli, file, documented default); distinct builder-parameter combinations and distinct accepted command-line configurations executed for 2-3 rounds over the simulated network",
                       assumptions=["the documented default of an option is the [default: X] of the --help text generated from the real Args (what `trip --help` prints; pinned by the repository's snapshot tests), falling back to trippy-config-sample.toml where the help states none; geoip-mmdb-file has no documented default",
                                    "the configuration file layer is the real ConfigFile deserialised from TOML text; locating and reading the file on disk is not exercised",
                                    "target-port / source-port are exercised under tcp, where their documented defaults (80 / auto) apply; under udp the default port direction is a fixed source port taken from the process id",
                                    "accepted command-line configurations are projected onto the tracer builder by the harness field by field as trippy-tui's start_tracer does (that function is private and spawns threads), then run for at most 3 rounds",
                                    "the privilege check is exercised with has_privileges = true, needs_privileges = false"] + LOOP_ASSUME)


PROPS = {"C16": c16, "C17": c17, "C18": c18, "C20": c20, "C04": c04, "C14": c14, "C12": c12, "C13": c13, "C02": c02, "C11": c11, "C05": c05, "C15": c15, "C19": c19, "C07": c07, "C01": c01, "C03": c03, "C06": c06, "C08": c08, "C09": c09, "C10": c10}

MONITOR_OF = {"C16": (CFGM, "MonCfg_C16.cfg"), "C17": (TUI, "MonTui_C17.cfg"), "C18": (TUI, "MonTui_C18.cfg"), "C20": ("mon/MonSnap.tla", "MonSnap.cfg"), "C04": (LOOP, "MonLoop_C04.cfg"), "C14": (LOOP, "MonLoop_C14.cfg"), "C12": (PKT, "MonPacket_C12.cfg"), "C13": (PKT, "MonPacket_C13.cfg"), "C02": (LOOP, "MonLoop_C02.cfg"), "C11": (LOOP, "MonLoop_C11.cfg"), "C05": (STATE, "MonState_C05.cfg"), "C15": (STATE, "MonState_C15.cfg"), "C19": (STATE, "MonState_C19.cfg"), "C07": (LOOP, "MonLoop_C07.cfg"), "C01": (LOOP, "MonLoop_C01.cfg"), "C03": (LOOP, "MonLoop_C03.cfg"), "C06": (LOOP, "MonLoop_C06.cfg"),
              "C08": (LOOP, "MonLoop_C08.cfg"), "C09": (LOOP, "MonLoop_C09.cfg"), "C10": (LOOP, "MonLoop_C10.cfg")}


def replay(ctx, path):
    info = json.load(open(path))
    sc = info.get("scenario")
    if not sc:
        raise ToolError("replay file has no scenario: %s" % path)
    d = os.path.join(WORK, "replay")
    os.makedirs(d, exist_ok=True)
    scf = os.path.join(d, "scenario-%s.jsonl" % ctx.prop)
    with open(scf, "w") as f:
        f.write(json.dumps(sc) + "\n")
    mon, cfg = MONITOR_OF[ctx.prop]
    ctx.sim("replay", 1, mon, cfg, scenarios_file=scf)
