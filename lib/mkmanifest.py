#!/usr/bin/env python3
"""Regenerate /verif/MANIFEST.json from the table below (kept in one place so it is always valid)."""
import json
import os

VERIF = os.path.abspath(os.path.join(os.path.dirname(os.path.abspath(__file__)), ".."))

CHECKS = {}
NOT_APPLICABLE = {}


def check(pid, category, text, note, technique, design_ref):
    CHECKS[pid] = {
        "property_id": pid,
        "quick_cmd": "bin/check %s --tier quick" % pid,
        "thorough_cmd": "bin/check %s --tier thorough" % pid,
        "evidence_file": "evidence/%s.json" % pid,
        "replay_cmd_template": "bin/check %s --replay {path}" % pid,
        "engine": "tla-trace-validation",
        "level_claimed": {"category": category, "text": text, "design_ref": design_ref},
        "level_note": note,
        "technique": technique,
    }


TRUSTED = ("The model is bound to the code by strict conformance (spec/conf/ConfLoop.tla: every hook-logged TracerState projection of every validated execution equals what the TracerOps operators compute); a conformance rejection is reported as MODEL-DRIFT, not as a violation. Trusted: the simulator and independent packet builder/decoder in harness/vh/src (router behaviour, ground-truth labels), "
           "TLC, the virtual clock interposition; Linux socket semantics only.")

exec(open(os.path.join(VERIF, "lib", "manifest_table.py")).read())

ALL = ["C%02d" % i for i in range(1, 21)]
manifest = {
    "version": 1,
    "setup_cmd": "cd harness && CARGO_NET_OFFLINE=true cargo build --release --offline",
    "hooks": {
        "guard": "cargo feature verif-hooks (trippy-core, trippy-tui)",
        "enable": "the harness workspace /verif/harness depends on /repo/crates/* by path with features = [\"verif-hooks\"]; bin/check runs cargo build there before every check",
        "baseline_off_cmd": "cd /repo && cargo nextest run --workspace --no-fail-fast --tool-config-file pb:/w/lib/nextest.toml --profile pb --test-threads 8 --offline || cargo test --workspace --no-fail-fast --offline",
        "source_commits": HOOK_COMMITS,
        "add_only": True,
    },
    "engines": [
        {"name": "tla-trace-validation", "path": "bin/check", "serves_properties": sorted(CHECKS),
         "kind_free_text": "explicit TLA+ specifications (spec/) checked with TLC; the real trippy code is run over a simulated socket and virtual clock by the Rust harness (harness/), its event logs are validated by TLC against TLA+ monitor specifications (verdict) and TLC-generated behaviours are replayed into the code"},
    ],
    "checks": [CHECKS[k] for k in sorted(CHECKS)],
    "not_applicable": [{"property_id": k, "reason": NOT_APPLICABLE.get(k, "not claimed yet: the check for this property is still being built (see DESIGN.md section 7)")}
                       for k in ALL if k not in CHECKS],
    "notes": "See DESIGN.md. Known findings and fixes: known_findings.jsonl. Seeded breaking changes: seeded/.",
}
with open(os.path.join(VERIF, "MANIFEST.json"), "w") as f:
    json.dump(manifest, f, indent=1)
print("wrote MANIFEST.json with %d checks" % len(CHECKS))
