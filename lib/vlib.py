"""Shared driver code for /verif/bin/check (see bin/check for the contract)."""
import concurrent.futures
import fcntl
import hashlib
import json
import os
import re
import shutil
import subprocess
import sys
import time

VERIF = os.path.abspath(os.path.join(os.path.dirname(os.path.abspath(__file__)), ".."))
WORK = os.path.join(VERIF, "work")
HARNESS = os.path.join(VERIF, "harness")
SPEC = os.path.join(VERIF, "spec")
EVID = os.path.join(VERIF, "evidence")
KNOWN_FILE = os.path.join(VERIF, "known_findings.jsonl")

JAVA_OPTS = "-Xss1g -DTLA-Library=%s" % SPEC
DEQUE = " -Dtlc2.tool.queue.IStateQueue=StateDeque"


class ToolError(Exception):
    pass


def log(msg):
    print(msg, flush=True)


# ------------------------------------------------------------------------------------------
# building
# ------------------------------------------------------------------------------------------
def build_harness(package="vh", profile="release"):
    """(Re)build the harness against /repo's current working tree. Serialised by a file lock."""
    os.makedirs(WORK, exist_ok=True)
    lock = open(os.path.join(WORK, ".build.lock"), "w")
    fcntl.flock(lock, fcntl.LOCK_EX)
    try:
        env = dict(os.environ, CARGO_NET_OFFLINE="true")
        cmd = ["cargo", "build", "--offline", "-p", package]
        if profile == "release":
            cmd.append("--release")
        t = time.time()
        r = subprocess.run(cmd, cwd=HARNESS, env=env, stdout=subprocess.PIPE, stderr=subprocess.STDOUT, text=True)
        if r.returncode != 0:
            sys.stderr.write(r.stdout[-6000:])
            raise ToolError("harness build failed (cargo build -p %s)" % package)
        return os.path.join(HARNESS, "target", "release" if profile == "release" else "debug", package), time.time() - t
    finally:
        fcntl.flock(lock, fcntl.LOCK_UN)
        lock.close()


# ------------------------------------------------------------------------------------------
# TLC
# ------------------------------------------------------------------------------------------
STATES_RE = re.compile(r"(\d+) states generated, (\d+) distinct states found")
INV_RE = re.compile(r"Invariant (\S+) is violated")
PROP_RE = re.compile(r"(Temporal properties were violated|Action property (\S+) is violated|property (\S+) is violated)")
KNOWN_RE = re.compile(r'<<"KNOWN-FINDING", "(\w+)", "(\w+)", (\d+)>>')
NOTCONS_RE = re.compile(r'<<"TRACE-NOT-CONSUMED", (\d+), (\d+)>>')
NOTLIN_RE = re.compile(r'<<"NOT-LINEARIZABLE-AT", (\d+), (\d+)>>')
COVER_RE = re.compile(r"^<(\w+) line (\d+), col \d+ to line \d+, col \d+ of module (\w+)>: (\d+):(\d+)", re.M)


def run_tlc(module_path, cfg, tag, env_extra=None, workers=1, timeout=900, extra=None, xmx="4g", deque=False):
    """Run TLC; returns a dict. Raises ToolError for parse errors / timeouts / evaluation errors."""
    d = os.path.dirname(module_path)
    meta = os.path.join(WORK, "tlc", tag)
    shutil.rmtree(meta, ignore_errors=True)
    os.makedirs(meta, exist_ok=True)
    out_path = os.path.join(meta, "tlc.out")
    env = dict(os.environ)
    env["JAVA_TOOL_OPTIONS"] = JAVA_OPTS + (DEQUE if deque else "") + " -Xmx" + xmx
    if env_extra:
        env.update(env_extra)
    cmd = ["timeout", str(timeout), "tlc", "-workers", str(workers), "-metadir", os.path.join(meta, "states"),
           "-cleanup", "-noGenerateSpecTE", "-checkpoint", "0", "-config", cfg] + (extra or []) + [os.path.basename(module_path)]
    t = time.time()
    with open(out_path, "w") as f:
        r = subprocess.run(cmd, cwd=d, env=env, stdout=f, stderr=subprocess.STDOUT)
    wall = time.time() - t
    txt = open(out_path, errors="replace").read()
    shutil.rmtree(os.path.join(meta, "states"), ignore_errors=True)
    res = {"out": out_path, "wall": wall, "rc": r.returncode, "violated": None, "known": [], "states": 0, "distinct": 0,
           "not_consumed": None, "coverage": {}}
    if r.returncode == 124:
        raise ToolError("TLC timeout after %ss: %s %s" % (timeout, module_path, cfg))
    m = None
    for m in STATES_RE.finditer(txt):
        pass
    if m:
        res["states"], res["distinct"] = int(m.group(1)), int(m.group(2))
    res["known"] = [(a, b, int(c)) for a, b, c in KNOWN_RE.findall(txt)]
    mi = INV_RE.search(txt)
    if mi:
        res["violated"] = mi.group(1)
    else:
        mp = PROP_RE.search(txt)
        if mp:
            res["violated"] = mp.group(2) or mp.group(3) or "temporal"
    mn = NOTCONS_RE.search(txt)
    if mn:
        res["not_consumed"] = (int(mn.group(1)), int(mn.group(2)))
    ml = NOTLIN_RE.search(txt)
    if ml and res["violated"] is None:
        # the linearizability monitor: no behaviour consumes the whole history
        res["violated"] = "Linearizable"
        res["not_consumed"] = (int(ml.group(1)), int(ml.group(2)))
    for name, _line, _mod, cnt, dist in COVER_RE.findall(txt):
        c = res["coverage"].setdefault(name, [0, 0])
        c[0] += int(cnt)
        c[1] += int(dist)
    if res["violated"] is None:
        errs = [e for e in re.findall(r"^Error: (.*)$", txt, re.M)]
        if "Parsing or semantic analysis failed" in txt:
            raise ToolError("TLC parse error (see %s)" % out_path)
        if mn:
            raise ToolError("trace not fully consumed without a violation (see %s)" % out_path)
        if errs:
            raise ToolError("TLC error (see %s): %s" % (out_path, " | ".join(errs)[:600]))
        if r.returncode != 0:
            raise ToolError("TLC exit %s (see %s)" % (r.returncode, out_path))
    return res


# ------------------------------------------------------------------------------------------
# known findings
# ------------------------------------------------------------------------------------------
def load_known(prop):
    out = {}
    if os.path.exists(KNOWN_FILE):
        for line in open(KNOWN_FILE):
            line = line.strip()
            if not line or line.startswith("#"):
                continue
            k = json.loads(line)
            if k.get("property") == prop and k.get("status") == "known":
                out[k["id"]] = k
    return out


# ------------------------------------------------------------------------------------------
# harness runs + trace validation
# ------------------------------------------------------------------------------------------
def scenario_of_line(log_path, line_no):
    """Return the scenario id of the `cfg` event governing a 1-based line number."""
    sc = None
    with open(log_path) as f:
        for i, l in enumerate(f, 1):
            if i > line_no:
                break
            if l.startswith('{') and '"e":"cfg"' in l:
                try:
                    sc = json.loads(l).get("sc")
                except ValueError:
                    pass
    return sc


def write_replay(prop, info):
    d = os.path.join(WORK, "replay")
    os.makedirs(d, exist_ok=True)
    h = hashlib.sha1(json.dumps(info, sort_keys=True).encode()).hexdigest()[:10]
    path = os.path.join(d, "%s-%s.json" % (prop, h))
    with open(path, "w") as f:
        json.dump(info, f, indent=1)
    return path


class Ctx:
    def __init__(self, prop, tier, seed):
        self.prop, self.tier, self.seed = prop, tier, seed
        self.t0 = time.time()
        self.violations = []      # (invariant, replay path)
        self.known_printed = set()
        self.cov = {"states": 0, "transitions": 0, "traces_validated_against_impl": 0, "evaluations": 0,
                    "samples": [], "models": [], "families": [], "events_validated": 0}
        self.nontrivial = set()
        self.assumptions = []
        self.drift = []
        self.known = load_known(prop)
        self.bins = {}

    def quick(self):
        return self.tier == "quick"

    def bin(self, package="vh"):
        if package not in self.bins:
            path, secs = build_harness(package)
            self.bins[package] = path
            self.cov.setdefault("build_s", {})[package] = round(secs, 1)
        return self.bins[package]

    # -- model instances ---------------------------------------------------------------
    def model(self, module, cfg, workers=8, timeout=1500, extra=None, expect_violation=None, xmx="8g", label=None):
        path = os.path.join(SPEC, module)
        tag = "%s-model-%s" % (self.prop, os.path.splitext(os.path.basename(cfg))[0])
        r = run_tlc(path, cfg, tag, workers=workers, timeout=timeout, extra=(extra or []) + ["-coverage", "1"], xmx=xmx)
        name = label or os.path.basename(cfg)
        rec = {"module": module, "cfg": cfg, "states_generated": r["states"], "distinct_states": r["distinct"],
               "wall_s": round(r["wall"], 1), "violated": r["violated"]}
        acts = {k: v[1] for k, v in r["coverage"].items() if k[0].isupper()}
        never = sorted(k for k, v in acts.items() if v == 0)
        rec["actions_never_taken"] = never
        self.cov["models"].append(rec)
        if expect_violation:
            if r["violated"] != expect_violation:
                raise ToolError("model %s: expected the non-vacuity instance to violate %s, got %s" % (name, expect_violation, r["violated"]))
            log("model %-28s expected counterexample for %s found (%d distinct states)" % (name, expect_violation, r["distinct"]))
            return r
        self.cov["states"] += r["distinct"]
        self.cov["transitions"] += r["states"]
        if r["violated"]:
            raise ToolError("model %s violates %s on the specification itself (see %s) - the model, not the code, is wrong"
                            % (name, r["violated"], r["out"]))
        log("model %-28s ok: %d distinct states, %d generated, %.1fs%s" % (name, r["distinct"], r["states"], r["wall"],
                                                                         (" NEVER-TAKEN " + ",".join(never)) if never else ""))
        return r

    # -- harness + monitor -------------------------------------------------------------
    def sim(self, family, n, monitor, cfg, seed_off=0, batch=400, extra_args=None, nontrivial=None, scenarios_file=None,
            package="vh", subcmd="sim", par=6, conf=None, env=None, drift_only=False):
        """Run `n` scenarios of a family through the real code, then validate the log(s) with the monitor."""
        binp = self.bin(package)
        seed = self.seed + seed_off
        d = os.path.join(WORK, "runs", "%s-%s" % (self.prop, family))
        shutil.rmtree(d, ignore_errors=True)
        os.makedirs(d)
        jobs = []
        nb = max(1, (n + batch - 1) // batch)
        for b in range(nb):
            cnt = min(batch, n - b * batch)
            logp = os.path.join(d, "b%d.ndjson" % b)
            stats = os.path.join(d, "b%d.stats.json" % b)
            scs = os.path.join(d, "b%d.scenarios.jsonl" % b)
            cmd = [binp, subcmd, "--out", logp, "--stats", stats, "--dump-scenarios", scs]
            if scenarios_file:
                cmd += ["--scenarios", scenarios_file]
            else:
                cmd += ["--family", family, "--seed", str(seed * 1000 + b), "--n", str(cnt)]
            cmd += (extra_args or [])
            jobs.append((cmd, logp, stats, scs))
            if scenarios_file:
                break

        def one(job):
            cmd, logp, stats, scs = job
            hangs = []
            while True:
                e2 = dict(os.environ, **(env or {}))
                if hangs:
                    e2["VT_SKIP"] = ",".join(str(h["idx"]) for h in hangs)
                r = subprocess.run(cmd, stdout=subprocess.PIPE, stderr=subprocess.STDOUT, text=True, timeout=3000, env=e2)
                if r.returncode == 3 and os.path.exists(logp + ".hang") and len(hangs) < 6:
                    # the harness watchdog: one scenario made no progress; record it, re-run the batch without it
                    h = json.load(open(logp + ".hang"))
                    if any(x["idx"] == h["idx"] for x in hangs):
                        raise ToolError("watchdog reported scenario %s twice" % h["idx"])
                    hangs.append(h)
                    continue
                break
            if hangs and r.returncode == 0:
                with open(logp, "a") as lf:
                    for h in hangs:
                        lf.write(json.dumps(h) + "\n")
            if r.returncode != 0:
                raise ToolError("harness failed: %s\n%s" % (" ".join(cmd), r.stdout[-3000:]))
            tag = "%s-%s-%s" % (self.prop, family, os.path.basename(logp).split(".")[0])
            tr = run_tlc(os.path.join(SPEC, monitor), cfg, tag, env_extra={"TRACE": logp}, workers=1, timeout=2400, deque=True)
            cr = None
            if conf:
                try:
                    cr = run_tlc(os.path.join(SPEC, conf[0]), conf[1], tag + "-conf", env_extra={"TRACE": logp}, workers=1,
                                 timeout=2400, deque=True)
                except ToolError as e:
                    cr = {"violated": "tool-error: %s" % e, "not_consumed": None, "out": ""}
            return job, tr, cr

        with concurrent.futures.ThreadPoolExecutor(max_workers=par) as ex:
            results = list(ex.map(one, jobs))
        fam = {"family": family, "scenarios": 0, "events": 0, "monitor": monitor, "cfg": cfg, "delivered": {}}
        for (cmd, logp, stats, scs), tr, cr in results:
            if cr is not None:
                fam.setdefault("conformance", {"spec": conf[0], "logs": 0, "rejected": 0})
                fam["conformance"]["logs"] += 1
                if cr["violated"]:
                    fam["conformance"]["rejected"] += 1
                    line = cr["not_consumed"][0] if cr.get("not_consumed") else 0
                    self.drift.append({"family": family, "clause": cr["violated"], "log": logp, "line": line})
                    log("MODEL-DRIFT property=%s clause=%s at %s line %s (not a violation: the implementation-shaped model no longer matches the code)"
                        % (self.prop, cr["violated"], logp, line))
            st = json.load(open(stats))
            fam["scenarios"] += len(st)
            nlines = sum(1 for _ in open(logp))
            fam["events"] += nlines
            self.cov["events_validated"] += nlines
            self.cov["traces_validated_against_impl"] += len(st)
            self.cov["evaluations"] += len(st)
            for s in st:
                for k, v in s.get("delivered", {}).items():
                    fam["delivered"][k] = fam["delivered"].get(k, 0) + v
                if nontrivial is None or nontrivial(s):
                    self.nontrivial.add((family, s.get("cell"), s.get("shape")))
            if len(self.cov["samples"]) < 4:
                with open(logp) as f:
                    head = [next(f, "").strip() for _ in range(400)]
                pick = [h for h in head if h and '"e":"st"' not in h][:6]
                self.cov["samples"].append({"family": family, "log_head": [json.loads(x) if len(x) < 900 else x[:900] for x in pick]})
            if drift_only:
                # a family that validates behaviour beyond the listed property: a rejection is reported, never a violation
                if tr["violated"]:
                    line = tr["not_consumed"][0] if tr.get("not_consumed") else 0
                    self.drift.append({"family": family, "clause": tr["violated"], "log": logp, "line": line})
                    log("MODEL-DRIFT property=%s clause=%s at %s line %s (not a violation of %s: the implementation no longer matches the specification of this behaviour)"
                        % (self.prop, tr["violated"], logp, line, self.prop))
            else:
                self.handle_trace_result(tr, family, logp, scs)
        self.cov["families"].append(fam)
        log("sim   %-10s %d scenarios, %d events validated by %s" % (family, fam["scenarios"], fam["events"], cfg))
        return fam

    def handle_trace_result(self, tr, family, logp, scs):
        for (pid, fid, line) in tr["known"]:
            if pid == self.prop or True:
                if fid in self.known:
                    if fid not in self.known_printed:
                        self.known_printed.add(fid)
                        log("KNOWN-FINDING: property=%s %s %s" % (self.prop, fid, self.known[fid]["what"]))
                else:
                    self.report_violation("unlisted-finding-" + fid, family, logp, scs, line)
        if tr["violated"]:
            line = tr["not_consumed"][0] if tr["not_consumed"] else 0
            self.report_violation(tr["violated"], family, logp, scs, line, tr["out"])

    def report_violation(self, inv, family, logp, scs, line, tlc_out=None):
        sc_id = scenario_of_line(logp, line) if line else None
        scenario = None
        if sc_id and os.path.exists(scs):
            for l in open(scs):
                try:
                    s = json.loads(l)
                except ValueError:
                    continue
                if s.get("id") == sc_id:
                    scenario = s
                    break
        excerpt = []
        if line:
            with open(logp) as f:
                for i, l in enumerate(f, 1):
                    if line - 6 <= i <= line:
                        excerpt.append(l.strip()[:1500])
                    if i > line:
                        break
        path = write_replay(self.prop, {"property": self.prop, "invariant": inv, "family": family, "scenario_id": sc_id,
                                        "scenario": scenario, "log": logp, "line": line, "excerpt": excerpt, "tlc_out": tlc_out})
        self.violations.append((inv, path))
        log("VIOLATION property=%s replay=%s" % (self.prop, path))
        log("  clause %s at %s line %s (scenario %s)" % (inv, logp, line, sc_id))

    # -- evidence ------------------------------------------------------------------------
    def write_evidence(self, level, rule, extra_cov=None, assumptions=None):
        os.makedirs(EVID, exist_ok=True)
        cov = dict(self.cov)
        cov["distinct_nontrivial"] = len(self.nontrivial)
        cov["rule"] = rule
        if extra_cov:
            cov.update(extra_cov)
        if not cov["samples"]:
            cov["samples"] = [{"note": "no harness run in this check"}]
        ev = {"property_id": self.prop, "tier": self.tier, "seed": self.seed, "level": level, "coverage": cov,
              "assumptions": (assumptions or []) + self.assumptions, "wall_s": round(time.time() - self.t0, 1),
              "violations": len(self.violations), "known_findings_seen": sorted(self.known_printed),
              "model_drift": self.drift}
        with open(os.path.join(EVID, "%s.json" % self.prop), "w") as f:
            json.dump(ev, f, indent=1)


def main(argv):
    import props
    if not argv:
        print(__doc__)
        return 2
    prop = argv[0]
    tier = os.environ.get("VERIF_TIER", "quick")
    replay = None
    i = 1
    while i < len(argv):
        if argv[i] == "--tier":
            tier = argv[i + 1]
            i += 2
        elif argv[i] == "--replay":
            replay = argv[i + 1]
            i += 2
        else:
            i += 1
    seed = int(os.environ.get("VERIF_SEED", "1"))
    if prop not in props.PROPS:
        print("unknown property %s" % prop)
        return 2
    ctx = Ctx(prop, tier, seed)
    try:
        if replay:
            props.replay(ctx, replay)
        else:
            props.PROPS[prop](ctx)
    except ToolError as e:
        log("TOOL-ERROR property=%s %s" % (prop, e))
        return 2
    except subprocess.TimeoutExpired as e:
        log("TOOL-ERROR property=%s timeout %s" % (prop, e))
        return 2
    if ctx.violations:
        return 1
    log("OK property=%s tier=%s wall=%.0fs" % (prop, tier, time.time() - ctx.t0))
    return 0
