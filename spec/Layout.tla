------------------------------- MODULE Layout -------------------------------
(***************************************************************************)
(* Header layouts taken from the governing RFCs (network byte order):      *)
(* RFC 791 (IPv4), RFC 8200 (IPv6), RFC 768 (UDP), RFC 9293 (TCP),         *)
(* RFC 792 / RFC 4443 (ICMP), RFC 4884 (length attribute, extension header *)
(* and objects), RFC 4950 / RFC 3032 (MPLS label stack entry).             *)
(* A field is <<octet offset, bit offset within that octet from the most   *)
(* significant bit, width in bits>>.  SetField is the only way a write may *)
(* change a header: exactly the bits of the field.                          *)
(***************************************************************************)
EXTENDS Integers, Sequences

Icmp == [type |-> <<0, 0, 8>>, code |-> <<1, 0, 8>>, checksum |-> <<2, 0, 16>>]
Echo == [type |-> <<0, 0, 8>>, code |-> <<1, 0, 8>>, checksum |-> <<2, 0, 16>>, identifier |-> <<4, 0, 16>>, sequence |-> <<6, 0, 16>>]

Fields == [
  ipv4 |-> [version |-> <<0, 0, 4>>, header_length |-> <<0, 4, 4>>, dscp |-> <<1, 0, 6>>, ecn |-> <<1, 6, 2>>, tos |-> <<1, 0, 8>>,
            total_length |-> <<2, 0, 16>>, identification |-> <<4, 0, 16>>, flags_and_fragment_offset |-> <<6, 0, 16>>,
            ttl |-> <<8, 0, 8>>, protocol |-> <<9, 0, 8>>, checksum |-> <<10, 0, 16>>,
            source |-> <<12, 0, 32>>, destination |-> <<16, 0, 32>>],
  ipv6 |-> [version |-> <<0, 0, 4>>, traffic_class |-> <<0, 4, 8>>, flow_label |-> <<1, 4, 20>>, payload_length |-> <<4, 0, 16>>,
            next_header |-> <<6, 0, 8>>, hop_limit |-> <<7, 0, 8>>, source |-> <<8, 0, 128>>, destination |-> <<24, 0, 128>>],
  udp  |-> [source |-> <<0, 0, 16>>, destination |-> <<2, 0, 16>>, length |-> <<4, 0, 16>>, checksum |-> <<6, 0, 16>>],
  tcp  |-> [source |-> <<0, 0, 16>>, destination |-> <<2, 0, 16>>, sequence |-> <<4, 0, 32>>, acknowledgement |-> <<8, 0, 32>>,
            data_offset |-> <<12, 0, 4>>, reserved |-> <<12, 4, 3>>, flags |-> <<12, 7, 9>>, window_size |-> <<14, 0, 16>>,
            checksum |-> <<16, 0, 16>>, urgent_pointer |-> <<18, 0, 16>>],
  icmp4 |-> Icmp, icmp4_echo_request |-> Echo, icmp4_echo_reply |-> Echo,
  \* RFC 4884: for ICMPv4 the length attribute is the second octet of the formerly unused word
  icmp4_time_exceeded |-> [type |-> <<0, 0, 8>>, code |-> <<1, 0, 8>>, checksum |-> <<2, 0, 16>>, length |-> <<5, 0, 8>>],
  icmp4_dest_unreachable |-> [type |-> <<0, 0, 8>>, code |-> <<1, 0, 8>>, checksum |-> <<2, 0, 16>>, length |-> <<5, 0, 8>>,
                              next_hop_mtu |-> <<6, 0, 16>>],
  icmp6 |-> Icmp, icmp6_echo_request |-> Echo, icmp6_echo_reply |-> Echo,
  \* RFC 4884: for ICMPv6 the length attribute is the first octet of the formerly unused word
  icmp6_time_exceeded |-> [type |-> <<0, 0, 8>>, code |-> <<1, 0, 8>>, checksum |-> <<2, 0, 16>>, length |-> <<4, 0, 8>>],
  icmp6_dest_unreachable |-> [type |-> <<0, 0, 8>>, code |-> <<1, 0, 8>>, checksum |-> <<2, 0, 16>>, length |-> <<4, 0, 8>>,
                              next_hop_mtu |-> <<6, 0, 16>>],   \* not an RFC field; position as implemented
  ext_header |-> [version |-> <<0, 0, 4>>, checksum |-> <<2, 0, 16>>],
  ext_object |-> [length |-> <<0, 0, 16>>, class_num |-> <<2, 0, 8>>, class_subtype |-> <<3, 0, 8>>],
  mpls_member |-> [label |-> <<0, 0, 20>>, exp |-> <<2, 4, 3>>, bos |-> <<2, 7, 1>>, ttl |-> <<3, 0, 8>>] ]

MinSize == [ipv4 |-> 20, ipv6 |-> 40, udp |-> 8, tcp |-> 20, icmp4 |-> 8, icmp4_echo_request |-> 8, icmp4_echo_reply |-> 8,
            icmp4_time_exceeded |-> 8, icmp4_dest_unreachable |-> 8, icmp6 |-> 8, icmp6_echo_request |-> 8, icmp6_echo_reply |-> 8,
            icmp6_time_exceeded |-> 8, icmp6_dest_unreachable |-> 8, ext_header |-> 4, ext_object |-> 4, mpls_member |-> 4]

Pow2(n) == 2 ^ n

\* write value v (already truncated to the width) into a field of at most 24 bits
SetInt(b, spec, v) ==
    LET off == spec[1] bit == spec[2] w == spec[3]
        n == (bit + w + 7) \div 8                         \* octets touched
        X == IF n = 1 THEN b[off + 1]
             ELSE IF n = 2 THEN b[off + 1] * 256 + b[off + 2]
             ELSE b[off + 1] * 65536 + b[off + 2] * 256 + b[off + 3]
        sh == 8 * n - bit - w
        old == (X \div Pow2(sh)) % Pow2(w)
        Y == X - old * Pow2(sh) + v * Pow2(sh)
        byte(i) == (Y \div Pow2(8 * (n - i))) % 256       \* i-th touched octet, 1-based
    IN  [j \in 1..Len(b) |-> IF j > off /\ j <= off + n THEN byte(j - off) ELSE b[j]]

\* write an octet string (addresses, 32-bit counters)
SetBytes(b, spec, v) ==
    [j \in 1..Len(b) |-> IF j > spec[1] /\ j <= spec[1] + Len(v) THEN v[j - spec[1]] ELSE b[j]]

\* the fields of a fixed header tile it without overlapping where the RFC says so
Bits(spec) == {spec[1] * 8 + spec[2] + i : i \in 0..(spec[3] - 1)}
=============================================================================
