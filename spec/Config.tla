-------------------------------- MODULE Config --------------------------------
(***************************************************************************)
(* Configuration of trippy (C16).                                          *)
(*                                                                          *)
(* 1. Layering (trippy-tui config.rs cfg_layer / cfg_layer_opt /            *)
(*    cfg_layer_bool_flag): the effective value of an option is the command *)
(*    line value if given, else the configuration file value if given, else *)
(*    the documented default - a function of that option's own three inputs *)
(*    only.                                                                 *)
(*                                                                          *)
(* 2. Validation against what the core can execute.  A tracer configuration *)
(*    is validated by the command-line layer (build_config and its validate functions),   *)
(*    then by Builder::build, then by the start of the tracer (packet size  *)
(*    checks of Channel::connect and of the first dispatch, which end the   *)
(*    run with an error before any probe is on the wire).  Supported is the *)
(*    domain of the core: the arms of probe_udp_data / probe_tcp_data that  *)
(*    are implemented and the ttl - 1 indexing of the state aggregator.     *)
(*    AcceptedCanRun: whatever passes validation is in that domain.         *)
(***************************************************************************)
EXTENDS Integers, FiniteSets

(***************************************************************************)
(* 1. layering                                                              *)
(***************************************************************************)
Absent == "-"
Layer(cli, file, dflt) == IF cli # Absent THEN cli ELSE IF file # Absent THEN file ELSE dflt
\* a configuration of several options: two layers of partial assignments
Effective(cliMap, fileMap, dfltMap) == [o \in DOMAIN dfltMap |-> Layer(cliMap[o], fileMap[o], dfltMap[o])]

(***************************************************************************)
(* 2. validation                                                            *)
(***************************************************************************)
Protos  == {"icmp", "udp", "tcp"}
Strats  == {"classic", "paris", "dublin"}
PortDir == {"none", "src", "dest", "both"}
MaxTtl  == 254
MaxInitSeq == 64511
MaxPacket  == 1024
MinPacket(fam, proto) == IF fam = 4 THEN 28 ELSE 48     \* IP header + ICMP / UDP header

\* the command line derives the port direction from the protocol and the ports given
CliPorts(proto, srcGiven, destGiven, strat) ==
    IF proto = "icmp" THEN "none"
    ELSE IF ~srcGiven /\ ~destGiven THEN (IF proto = "udp" THEN "src" ELSE "dest")
    ELSE IF srcGiven /\ ~destGiven THEN "src"
    ELSE IF ~srcGiven /\ destGiven THEN "dest"
    ELSE IF proto = "udp" /\ strat \in {"paris", "dublin"} THEN "both"
    ELSE "reject"

\* a tracer configuration as the builder sees it
CfgOK(c) == /\ c.proto \in Protos /\ c.strat \in Strats /\ c.ports \in PortDir /\ c.priv \in BOOLEAN
            /\ c.first \in 0..255 /\ c.max \in 0..255 /\ c.inflight \in 0..255 /\ c.initseq \in 0..65535
            /\ c.psize \in 0..65535 /\ c.fam \in {4, 6}

\* the validate functions of the command-line layer (the CLI can only produce port directions CliPorts yields)
CliAccepts(c) ==
    /\ (c.strat # "classic" => c.proto = "udp" /\ c.priv)
    /\ \E s, d \in BOOLEAN : CliPorts(c.proto, s, d, c.strat) = c.ports
    /\ c.first >= 1 /\ c.first <= MaxTtl /\ c.max >= 1 /\ c.max <= MaxTtl /\ c.first <= c.max
    /\ c.inflight >= 1
    /\ c.psize >= 48 /\ c.psize <= MaxPacket      \* 28 when the address family is IPv4 only
\* Builder::build (as repaired: zero first ttl and unimplemented fixed-both combinations are rejected)
BuilderAccepts(c) ==
    /\ (c.proto \in {"udp", "tcp"} => c.ports # "none")
    /\ ~(c.proto = "tcp" /\ c.ports = "both")
    /\ ~(c.proto = "udp" /\ c.strat = "classic" /\ c.ports = "both")
    /\ c.first >= 1 /\ c.first <= MaxTtl /\ c.max <= MaxTtl
    /\ c.initseq <= MaxInitSeq
\* the start of the tracer: Channel::connect and the size check of the first dispatch
\* (as repaired, F28: the paris and dublin sequence fields cannot be set on an unprivileged datagram socket)
StartAccepts(c) ==
    /\ (c.proto = "udp" /\ c.strat # "classic" => c.priv)
    /\ c.psize <= MaxPacket
    /\ (c.proto \in {"icmp", "udp"} /\ c.first <= c.max /\ c.inflight > 0) => c.psize >= MinPacket(c.fam, c.proto)

\* the domain of the core
Supported(c) ==
    /\ c.first >= 1                                                  \* hops are indexed by ttl - 1
    /\ (c.proto = "udp" => c.ports # "none" /\ ~(c.strat = "classic" /\ c.ports = "both"))
    /\ (c.proto = "tcp" => c.ports \in {"src", "dest"})
    /\ (c.proto = "udp" /\ c.strat # "classic" => c.priv)            \* the sequence rides in fields only a raw socket can set
    /\ c.initseq <= MaxInitSeq                                       \* room for a round's sequences below 65535

Outcome(c) == IF ~BuilderAccepts(c) THEN "reject-builder"
              ELSE IF ~StartAccepts(c) THEN "reject-start"
              ELSE "run"

AcceptedCanRun(c)    == Outcome(c) = "run" => Supported(c)
CliAcceptedCanRun(c) == CliAccepts(c) /\ Outcome(c) = "run" => Supported(c)
=============================================================================
