------------------------------ MODULE ConfLoop ------------------------------
(***************************************************************************)
(* Strict conformance of recorded executions to the implementation-shaped  *)
(* specification: every hook-logged projection of the private TracerState  *)
(* must equal what the TracerOps operators (the ones TLC model-checks in   *)
(* Tracer.tla) compute from the previous state and the logged events.      *)
(*                                                                          *)
(* This is what lets the exhaustive result about the model say something    *)
(* about the code: on every validated execution the code took only steps    *)
(* the model allows.  A rejection here with all property monitors green is  *)
(* MODEL DRIFT (the model no longer describes the code), not a violation.   *)
(***************************************************************************)
EXTENDS Integers, Sequences, FiniteSets, TLC, Json, IOUtils

Ops == INSTANCE TracerOps

Rec == ndJsonDeserialize(IOEnv.TRACE)
N   == Len(Rec)

VARIABLES l, c, s, q
\* q: ghost flags [sent |-> a send event was seen since the last "st", prevTime |-> time of last event]
vars == <<l, c, s, q>>

CfgOf(e) == [ bufferSize |-> 512, u16Max |-> 65535, initSeq |-> e.init_seq, firstTtl |-> e.first_ttl,
              maxTtl |-> e.max_ttl, maxInflight |-> e.max_inflight, dublin6 |-> e.dublin6,
              minRound |-> e.min_round, maxRound |-> e.max_round, grace |-> e.grace,
              maxRounds |-> e.max_rounds, traceId |-> e.trace_id, proto |-> e.proto ]

C0 == [ bufferSize |-> 512, u16Max |-> 65535, initSeq |-> 0, firstTtl |-> 1, maxTtl |-> 1, maxInflight |-> 1,
        dublin6 |-> FALSE, minRound |-> 0, maxRound |-> 0, grace |-> 0, maxRounds |-> 1, traceId |-> 0,
        proto |-> "icmp" ]
Q0 == [sent |-> FALSE, active |-> FALSE, okSend |-> TRUE, okPub |-> TRUE, okSkip |-> TRUE]

OwnId(cc) == IF cc.proto = "icmp" THEN cc.traceId ELSE 0

Init == l = 1 /\ c = C0 /\ s = Ops!Init(C0, 0) /\ q = Q0

StepCfg(e)  == c' = CfgOf(e) /\ s' = Ops!Init(CfgOf(e), e.t) /\ q' = [Q0 EXCEPT !.active = TRUE]

StepSend(e) ==
    /\ c' = c
    /\ LET s1 == IF e.reissue THEN Ops!ReissueProbe(c, s, e.t) ELSE Ops!NextProbe(c, s, e.t)
           s2 == IF e.out = "failed" THEN Ops!FailProbe(c, s1) ELSE s1
       IN  s' = s2
    /\ q' = [q EXCEPT !.sent = TRUE,
                      !.okSend = /\ e.seq = s.seq
                                 /\ (IF e.reissue THEN e.ttl = s.ttl - 1 ELSE e.ttl = s.ttl /\ Ops!ShouldSend(c, s))
                                 /\ e.round = s.round]

StepDlv(e) ==
    /\ c' = c /\ q' = q
    /\ s' = IF e.label \in {"foreign", "garbage"} THEN s
            ELSE Ops!RecvResponse(c, s, OwnId(c), e.seq, e.from, e.tgt, e.t)

StepPub(e) ==
    /\ c' = c
    /\ q' = [q EXCEPT !.okPub = /\ Ops!RoundComplete(c, s, e.t)
                                /\ e.largest = Ops!LargestTtl(c, s)
                                /\ e.reason = Ops!Reason(s)
                                /\ Len(e.probes) = Ops!RoundSize(s)]
    /\ s' = Ops!AdvanceRound(c, s, e.t)

\* a "send" phase that logged no send event: the model must agree that nothing was to be sent
StepSt(e) ==
    /\ c' = c /\ s' = s
    /\ q' = [q EXCEPT !.sent = FALSE,
                      !.okSkip = (e.ph = "send" /\ ~q.sent) => ~Ops!ShouldSend(c, s)]

Next == /\ l <= N /\ l' = l + 1
        /\ LET e == Rec[l] IN
           CASE e.e = "cfg"  -> StepCfg(e)
             [] e.e = "send" -> StepSend(e)
             [] e.e = "dlv"  -> StepDlv(e)
             [] e.e = "pub"  -> StepPub(e)
             [] e.e = "st"   -> StepSt(e)
             [] OTHER -> UNCHANGED <<c, s, q>>
Spec == Init /\ [][Next]_vars

E == Rec[l - 1]
At(tag) == l > 1 /\ E.e = tag

StatusString(ss) == [i \in 1..Ops!RoundSize(ss) |->
                        CASE ss.buf[i - 1].st = "N" -> 0 [] ss.buf[i - 1].st = "S" -> 1
                          [] ss.buf[i - 1].st = "F" -> 2 [] ss.buf[i - 1].st = "A" -> 3 [] OTHER -> 4]

Conf_StateMatches == At("st") =>
    /\ E.seq = s.seq /\ E.rseq = s.rseq /\ E.ttl = s.ttl /\ E.round = s.round
    /\ E.tf = s.tf
    /\ E.mrt = (IF s.mrt = 0 THEN -1 ELSE s.mrt)
    /\ E.tt = (IF s.tt = 0 THEN -1 ELSE s.tt)
    /\ E.rt = s.rt /\ E.rs = s.rs
    /\ E.scn = StatusString(s)
Conf_SendAllowed   == q.okSend
Conf_PublishAgrees == q.okPub
Conf_SkipJustified == q.okSkip

Accepted == IF TLCGet("stats").diameter - 1 = N THEN TRUE
            ELSE Print(<<"TRACE-NOT-CONSUMED", TLCGet("stats").diameter - 1, N>>, FALSE)
=============================================================================
