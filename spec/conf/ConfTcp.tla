------------------------------- MODULE ConfTcp -------------------------------
(***************************************************************************)
(* Trace validation of the Channel's table of pending TCP connects against  *)
(* TcpTable.tla.  The simulator logs the lifetime of every probe socket:     *)
(*   tcp_open  (sock, t, ready)  the connect was started (ready: the time    *)
(*             the handshake answer arrives, -1 = never);                    *)
(*   tcp_take  (sock, t, done)   the channel asked the socket for its         *)
(*             outcome (done: an answer was handed over);                    *)
(*   tcp_close (sock, t)         the channel dropped the socket.              *)
(* The ghost table is rebuilt from these events with TcpTable's operators and *)
(* every step must be one TcpTable allows: Take of the first writable entry,  *)
(* Expire of an entry past the connect timeout, Evict of the oldest entry of  *)
(* a full table.  Sockets dropped when the tracer ends are a contiguous block *)
(* of closes directly before the `end` event.                                 *)
(***************************************************************************)
EXTENDS Integers, Sequences, FiniteSets, TLC, Json, IOUtils

Cap == 256
T == INSTANCE TcpTable WITH Cap <- Cap, Timeout <- 0, SockIds <- {}, MaxT <- 0, Evicts <- TRUE,
                            table <- <<>>, now <- 0, closed <- {}, taken <- {}, opened <- {}

Rec == ndJsonDeserialize(IOEnv.TRACE)
N   == Len(Rec)
VARIABLES l, g, p
vars == <<l, g, p>>

G0 == [ cfg |-> [e |-> "none", tcp_timeout |-> 0], tbl |-> <<>>, susp |-> 0, takes |-> 0, expires |-> 0, evicts |-> 0 ]

IndexOf(tbl, s) == IF \E i \in 1..Len(tbl) : tbl[i].s = s THEN CHOOSE i \in 1..Len(tbl) : tbl[i].s = s ELSE 0
Timeout(gg) == gg.cfg.tcp_timeout

Step(gg, e) ==
    CASE e.e = "cfg" -> [G0 EXCEPT !.cfg = e]
      [] e.e = "tcp_open" -> [gg EXCEPT !.tbl = Append(@, [s |-> e.sock, start |-> e.t, ready |-> e.ready])]
      [] e.e = "tcp_take" ->
            LET i == IndexOf(gg.tbl, e.sock) IN
            IF i = 0 THEN gg ELSE [gg EXCEPT !.tbl = T!Without(@, i), !.takes = @ + 1]
      [] e.e = "tcp_close" ->
            LET i == IndexOf(gg.tbl, e.sock) IN
            IF i = 0 THEN gg
            ELSE LET x == gg.tbl[i]
                     expired == T!Expired(x, e.t, Timeout(gg))
                     evicted == i = 1 /\ Len(gg.tbl) > Cap IN
                 [gg EXCEPT !.tbl = T!Without(@, i),
                            !.expires = @ + (IF expired THEN 1 ELSE 0),
                            !.evicts = @ + (IF ~expired /\ evicted THEN 1 ELSE 0),
                            !.susp = @ + (IF expired \/ evicted THEN 0 ELSE 1)]
      [] e.e = "end" -> [gg EXCEPT !.susp = 0]
      [] OTHER -> gg

Init == l = 1 /\ g = G0 /\ p = G0
Next == l <= N /\ l' = l + 1 /\ p' = g /\ g' = Step(g, Rec[l])
Spec == Init /\ [][Next]_vars

E == Rec[l - 1]
At(tag) == l > 1 /\ E.e = tag

\* Take: the socket is in the table, its answer has arrived, it is within its timeout, and no entry before it is writable
Tcp_Take == At("tcp_take") =>
    LET i == IndexOf(p.tbl, E.sock) IN
    /\ i > 0
    /\ E.done
    /\ T!Ready(p.tbl[i], E.t)
    /\ ~T!Expired(p.tbl[i], E.t, Timeout(p))
    /\ \A j \in 1..(i - 1) : ~T!Ready(p.tbl[j], E.t)
\* the table never holds more than its capacity (the new entry is logged before the eviction it causes)
Tcp_Bounded == (l > 1 /\ E.e # "tcp_open") => Len(g.tbl) <= Cap
\* a pending connect is abandoned only when expired, evicted from a full table, or at the end of the trace
Tcp_Abandon == (l > 1 /\ E.e \notin {"tcp_close", "end"}) => p.susp = 0
\* table order is the order of the connects
Tcp_Ordered == \A i \in 1..(Len(g.tbl) - 1) : g.tbl[i].start <= g.tbl[i + 1].start

Accepted == IF TLCGet("stats").diameter - 1 = N THEN TRUE
            ELSE Print(<<"TRACE-NOT-CONSUMED", TLCGet("stats").diameter - 1, N>>, FALSE)
=============================================================================
