SPECIFICATION Spec
CHECK_DEADLOCK FALSE
POSTCONDITION Accepted
INVARIANT Conf_StateMatches
INVARIANT Conf_SendAllowed
INVARIANT Conf_PublishAgrees
INVARIANT Conf_SkipJustified
