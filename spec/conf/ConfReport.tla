----------------------------- MODULE ConfReport -----------------------------
(* Validation of the output of the real report generators (captured from standard output and parsed back by the *)
(* harness) against Report.tla: one `report` event per (scenario, mode).                                          *)
EXTENDS Report, TLC, Json, IOUtils

Rec == ndJsonDeserialize(IOEnv.TRACE)
N   == Len(Rec)
VARIABLE l
Init == l = 1
Next == l <= N /\ l' = l + 1
Spec == Init /\ [][Next]_l
E == Rec[l - 1]
At(tag) == l > 1 /\ E.e = tag

R_Rows  == At("report") /\ E.mode \in Modes => ReportOK(E.mode, E.rows, E.hops)
R_Flows == At("report") /\ E.mode = "flows" => FlowsOK(E.lines, E.flows)
R_Dot   == At("report") /\ E.mode = "dot" => E.parsed /\ DotOK(E.edges, E.flows)
R_NoPanic == At("report") => ~E.panic

Accepted == IF TLCGet("stats").diameter - 1 = N THEN TRUE
            ELSE Print(<<"TRACE-NOT-CONSUMED", TLCGet("stats").diameter - 1, N>>, FALSE)
=============================================================================
