SPECIFICATION TSpec
CHECK_DEADLOCK FALSE
POSTCONDITION Accepted
CONSTANTS
  NTraces = 2
  MaxHops = 8
  MaxFlows = 1
  MaxAddrs = 8
