SPECIFICATION Spec
CHECK_DEADLOCK FALSE
POSTCONDITION Accepted
INVARIANT R_Rows
INVARIANT R_Flows
INVARIANT R_NoPanic
INVARIANT R_Dot
