SPECIFICATION TSpec
CHECK_DEADLOCK FALSE
POSTCONDITION Accepted
CONSTANTS
  NTabs = 7
  ColumnsTab = 6
  Declared <- RealDeclared
  Rows <- NoRows
  InitCols <- NoCols
