---------------------------- MODULE ConfSettings ----------------------------
(***************************************************************************)
(* Trace validation of the real key dispatch of run_app (three modes) and   *)
(* of the settings / column editor state against Settings.tla, over the     *)
(* logs of every TUI scenario family: each `key` event takes the model's    *)
(* Key(name) step in the current mode, each `frame` must show the model's   *)
(* dialog mode, tab, item and column list.                                  *)
(***************************************************************************)
EXTENDS Settings, Json, IOUtils, TLC

Rec == ndJsonDeserialize(IOEnv.TRACE)
N   == Len(Rec)
VARIABLES l, fresh
tvars == <<svars, l, fresh>>
E == Rec[l]
Consume(e) == l <= N /\ E.e = e /\ l' = l + 1

RealDeclared == [t \in 0..6 |-> CASE t = 0 -> 10 [] t = 1 -> 18 [] t = 2 -> 5 [] t = 3 -> 1 [] t = 4 -> 37 [] t = 5 -> 33 [] t = 6 -> 0]
NoRows == [t \in 0..6 |-> 0]
NoCols == <<>>

TInit == SInit /\ l = 1 /\ fresh = TRUE
TCfg == Consume("tcfg") /\ mode' = "main" /\ tab' = 0 /\ item' = None /\ cols' = <<>> /\ fresh' = TRUE
TOther == l <= N /\ E.e \in {"upd", "end", "hang"} /\ l' = l + 1 /\ UNCHANGED <<svars, fresh>>
TKey == Consume("key") /\ Key(E.name) /\ UNCHANGED fresh
ModeOf(f) == IF f.show_help THEN "help" ELSE IF f.show_settings THEN "settings" ELSE "main"
\* the column list of a run is read from its first frame, afterwards it must equal the model's
TFrame == /\ Consume("frame")
          /\ IF fresh THEN cols' = E.cols ELSE cols' = cols /\ cols = E.cols
          /\ fresh' = FALSE
          /\ mode = ModeOf(E) /\ tab = E.tab /\ item = E.item
          /\ UNCHANGED <<mode, tab, item>>
TNext == TCfg \/ TOther \/ TKey \/ TFrame
TSpec == TInit /\ [][TNext]_tvars

Accepted == IF TLCGet("stats").diameter - 1 = N THEN TRUE
            ELSE Print(<<"TRACE-NOT-CONSUMED", TLCGet("stats").diameter - 1, N>>, FALSE)
=============================================================================
