---------------------------- MODULE ConfSettings ----------------------------
(***************************************************************************)
(* Trace validation of the real key dispatch of run_app (three modes) and   *)
(* of the settings / column editor state against Settings.tla, over the     *)
(* logs of every TUI scenario family: each `key` event takes the model's    *)
(* Key(name) step in the current mode, each `frame` must show the model's   *)
(* dialog mode, tab, item and column list.                                  *)
(* It also checks what the user sees against the displayed state: every     *)
(* hops-table row parsed from the captured screen (`trows`, tenths) shows   *)
(* the counters and round-trip statistics of that hop in the displayed      *)
(* State (`srows`, thousandths of a millisecond), rounded to one decimal.   *)
(***************************************************************************)
EXTENDS Settings, Json, IOUtils, TLC

Rec == ndJsonDeserialize(IOEnv.TRACE)
N   == Len(Rec)
VARIABLES l, fresh
tvars == <<svars, l, fresh>>
E == Rec[l]
Consume(e) == l <= N /\ E.e = e /\ l' = l + 1

RealDeclared == [t \in 0..6 |-> CASE t = 0 -> 10 [] t = 1 -> 18 [] t = 2 -> 5 [] t = 3 -> 1 [] t = 4 -> 37 [] t = 5 -> 33 [] t = 6 -> 0]
NoRows == [t \in 0..6 |-> 0]
NoCols == <<>>

TInit == SInit /\ l = 1 /\ fresh = TRUE
TCfg == Consume("tcfg") /\ mode' = "main" /\ tab' = 0 /\ item' = None /\ cols' = <<>> /\ fresh' = TRUE
TOther == l <= N /\ E.e \in {"upd", "end", "hang"} /\ l' = l + 1 /\ UNCHANGED <<svars, fresh>>
TKey == Consume("key") /\ Key(E.name) /\ UNCHANGED fresh
ModeOf(f) == IF f.show_help THEN "help" ELSE IF f.show_settings THEN "settings" ELSE "main"
Abs(x) == IF x < 0 THEN -x ELSE x
SetOf(q) == {q[i] : i \in 1..Len(q)}
\* a value shown with one decimal (tenths) against the state's value in thousandths: half a unit of the last place
Shown(scr, st) == IF st < 0 THEN scr = -1 ELSE Abs(scr * 100 - st) <= 51
RowOK(r, h) ==
    /\ r.snd = h.sent /\ r.recv = h.recv
    /\ IF h.sent = 0 THEN r.loss = 0 ELSE 2 * Abs(r.loss * h.sent - 1000 * (h.sent - h.recv)) <= h.sent + 2
    /\ IF h.recv > 0 THEN Shown(r.last, h.last) /\ Shown(r.avg, h.avg) /\ Shown(r.best, h.best) /\ Shown(r.wrst, h.wrst)
       ELSE r.last = -1 /\ r.avg = -1 /\ r.best = -1 /\ r.wrst = -1
    /\ IF h.recv > 1 THEN Shown(r.sd, h.sd) ELSE r.sd = -1
ScreenShowsState(f) == \A r \in SetOf(f.trows) : \E h \in SetOf(f.srows) : h.ttl = r.ttl /\ RowOK(r, h)

\* the column list of a run is read from its first frame, afterwards it must equal the model's
TFrame == /\ Consume("frame")
          /\ IF fresh THEN cols' = E.cols ELSE cols' = cols /\ cols = E.cols
          /\ fresh' = FALSE
          /\ mode = ModeOf(E) /\ tab = E.tab /\ item = E.item
          /\ ScreenShowsState(E)
          /\ UNCHANGED <<mode, tab, item>>
TNext == TCfg \/ TOther \/ TKey \/ TFrame
TSpec == TInit /\ [][TNext]_tvars

Accepted == IF TLCGet("stats").diameter - 1 = N THEN TRUE
            ELSE Print(<<"TRACE-NOT-CONSUMED", TLCGet("stats").diameter - 1, N>>, FALSE)
=============================================================================
