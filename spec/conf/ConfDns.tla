------------------------------- MODULE ConfDns -------------------------------
(***************************************************************************)
(* Trace validation of the real trippy_dns::DnsResolver (System resolver,   *)
(* background thread, real time) against DnsCache.tla.  The driver logs      *)
(* every lazy_reverse_lookup (address, answer kind, time in ms) and every     *)
(* flush; the background thread is not observed: its steps are silent steps   *)
(* of the trace specification.  A `reset` line starts a fresh resolver.       *)
(***************************************************************************)
EXTENDS DnsCache, TLC, Json, IOUtils

Rec == ndJsonDeserialize(IOEnv.TRACE)
N   == Len(Rec)
VARIABLE l
tvars == <<vars, l>>

TInit == Init /\ l = 1 /\ TLCSet(1, 1)

\* the lookup happens shortly before its log line and a result is stored at some moment between two lines: near the
\* boundary the staleness decision is left open
Slack == 75
TLookup == /\ l <= N /\ Rec[l].op = "lookup" /\ now = Rec[l].t
           /\ \E stale \in BOOLEAN :
                /\ (stale => Rec[l].a \in DOMAIN cache /\ now - cache[Rec[l].a].ts >= Ttl - Slack)
                /\ (~stale /\ Rec[l].a \in DOMAIN cache /\ cache[Rec[l].a].st \in Finals => now - cache[Rec[l].a].ts <= Ttl + Slack)
                /\ LookupWith(Rec[l].a, stale)
           /\ ret'.st = Rec[l].ret
           /\ l' = l + 1
TFlush  == l <= N /\ Rec[l].op = "flush" /\ now = Rec[l].t /\ Flush /\ l' = l + 1
TTime   == l <= N /\ Rec[l].op # "reset" /\ now < Rec[l].t /\ now' = Rec[l].t /\ UNCHANGED <<cache, queue, working, ret, l>>
TReset  == /\ l <= N /\ Rec[l].op = "reset"
           /\ cache' = <<>> /\ queue' = <<>> /\ working' = None /\ now' = 0 /\ ret' = [a |-> None, st |-> "none"]
           /\ l' = l + 1
\* the results the background thread can have produced: the kinds the log shows, and a timeout (which shows as a
\* final answer turning pending again)
Seen == {Rec[i].ret : i \in {j \in 1..N : Rec[j].op = "lookup"}} \cap Results
TWorker == (WorkerTake \/ \E r \in Seen \cup {"timeout"} : WorkerDone(r)) /\ UNCHANGED l

TNext == TLookup \/ TFlush \/ TReset \/ TTime \/ TWorker
TSpec == TInit /\ [][TNext]_tvars

\* the farthest line reached by any behaviour (register 1; needs -workers 1)
Progress == TLCSet(1, IF TLCGet(1) > l THEN TLCGet(1) ELSE l)
Dns_PendingHasRequest == PendingHasRequest
Accepted == IF TLCGet(1) = N + 1 THEN TRUE
            ELSE Print(<<"TRACE-NOT-CONSUMED", TLCGet(1) - 1, N>>, FALSE)
=============================================================================
