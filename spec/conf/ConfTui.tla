------------------------------- MODULE ConfTui -------------------------------
(***************************************************************************)
(* Trace validation of the real TUI event loop against Tui.tla.  The log   *)
(* is produced by replaying TLC-generated scripts (MC_TuiGen) through the   *)
(* real run_app / TuiApp / renderer:                                         *)
(*   tcfg   a new run                      -> the initial state              *)
(*   upd    a published round              -> GrowF / NewFlow (+ the logged  *)
(*          address counts of the default flow, which the model leaves free) *)
(*   key    a dispatched command           -> the command's action           *)
(*   frame  a drawn frame                  -> (NoKey .) Tick . Draw, and the *)
(*          selection state and the shape of the displayed data logged by    *)
(*          the implementation must equal the model's                        *)
(* A log that is not consumed to its end is a divergence of the             *)
(* implementation from the model.                                            *)
(***************************************************************************)
EXTENDS Tui, Sequences, Json, IOUtils

Rec == ndJsonDeserialize(IOEnv.TRACE)
N   == Len(Rec)
VARIABLE l
tvars == <<vars, l>>
E == Rec[l]
SetOf(s) == {s[i] : i \in 1..Len(s)}
Pad(s) == [i \in 0..(MaxHops - 1) |-> IF i + 1 <= Len(s) THEN s[i + 1] ELSE 0]
Consume(e) == l <= N /\ E.e = e /\ l' = l + 1

TInit == Init /\ l = 1

TCfg == /\ Consume("tcfg")
        /\ E.ntraces = NTraces
        /\ data' = [t \in Traces |-> Empty] /\ view' = Empty
        /\ sel' = -1 /\ selFlow' = 0 /\ selAddr' = 0 /\ traceSel' = 0 /\ showFlows' = FALSE /\ frozen' = FALSE
        /\ privacy' = E.privacy0 /\ flowCounts' = {} /\ pc' = "tick"

TEnd == Consume("end") /\ UNCHANGED vars
\* a watchdog record appended by the driver (a run that was abandoned and is not in the log)
THang == Consume("hang") /\ UNCHANGED vars

TUpd == /\ Consume("upd") /\ pc = "key"
        /\ LET t == E.t
               d == data[t]
           IN  /\ IF E.d = "flow" THEN FlowOK(d) /\ E.f = Cardinality(d.flows) + 1
                  ELSE IF E.d = "addr" THEN E.f < d.hops[0]
                  ELSE GrowOK(d, E.f)
               /\ data' = [data EXCEPT ![t] = [(IF E.d = "flow" THEN FlowRec(d) ELSE IF E.d = "addr" THEN d ELSE GrowRec(d, E.f))
                                                  EXCEPT !.addrs = Pad(E.addrs)]]
        /\ DataUnch

TKey == /\ Consume("key")
        /\ LET k == E.name IN
           \/ k = "next_hop" /\ NextHop
           \/ k = "previous_hop" /\ PrevHop
           \/ k = "next_trace" /\ (NextTrace \/ NextFlow)
           \/ k = "previous_trace" /\ (PrevTrace \/ PrevFlow)
           \/ k = "next_hop_address" /\ NextAddr
           \/ k = "previous_hop_address" /\ PrevAddr
           \/ k = "toggle_freeze" /\ ToggleFreeze
           \/ k = "toggle_flows" /\ ToggleFlows
           \/ k = "clear_trace_data" /\ ClearTrace
           \/ k = "clear_selection" /\ ClearSel
           \/ k = "expand_privacy" /\ ExpandPrivacy
           \/ k = "contract_privacy" /\ ContractPrivacy

\* a frame: the rest of the previous iteration (no key), the top of the loop, and the draw
TFrame == /\ Consume("frame") /\ pc \in {"tick", "key"}
          /\ view' = TickView /\ flowCounts' = TickFC /\ sel' = TickSel /\ pc' = "key"
          /\ UNCHANGED <<data, selFlow, selAddr, traceSel, showFlows, frozen, privacy>>
          \* the implementation's state as logged after the draw
          /\ sel' = E.sel /\ selFlow = E.flow /\ selAddr = E.addr_sel /\ traceSel = E.trace
          /\ showFlows = E.show_flows /\ frozen = E.frozen /\ privacy = E.privacy
          /\ HopCount(view', selFlow) = E.hop_count
          /\ view'.hops[0] = E.hops0 /\ view'.flows = SetOf(E.flow_ids) /\ flowCounts' = SetOf(E.fc)
          /\ view'.addrs = Pad(E.addrs0)
          \* and the drawn state satisfies the model's own draw condition
          /\ (sel' = -1 \/ sel' < HopCount(view', selFlow))

TNext == TCfg \/ TEnd \/ THang \/ TUpd \/ TKey \/ TFrame
TSpec == TInit /\ [][TNext]_tvars

Accepted == IF TLCGet("stats").diameter - 1 = N THEN TRUE
            ELSE Print(<<"TRACE-NOT-CONSUMED", TLCGet("stats").diameter - 1, N>>, FALSE)
=============================================================================
