SPECIFICATION Spec
CHECK_DEADLOCK FALSE
POSTCONDITION Accepted
INVARIANT Tcp_Take
INVARIANT Tcp_Bounded
INVARIANT Tcp_Abandon
INVARIANT Tcp_Ordered
