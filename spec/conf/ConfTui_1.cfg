SPECIFICATION TSpec
CHECK_DEADLOCK FALSE
POSTCONDITION Accepted
CONSTANTS
  NTraces = 1
  MaxHops = 8
  MaxFlows = 3
  MaxAddrs = 8
