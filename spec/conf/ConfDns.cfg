SPECIFICATION TSpec
CHECK_DEADLOCK FALSE
CONSTANTS
  Addrs = {0, 1, 2, 3, 4}
  QueueCap = 100
  Ttl = 150
  None = None
  MaxT = 100000000
POSTCONDITION Accepted
INVARIANT Progress
INVARIANT Dns_PendingHasRequest
