------------------------------ MODULE TracerOps ------------------------------
(***************************************************************************)
(* The tracing state machine of trippy-core (strategy.rs: `TracerState`    *)
(* and the three phases of `Strategy::run`) as pure operators over an      *)
(* explicit configuration record c and state record s.                     *)
(*                                                                          *)
(* One operator per method of the implementation, transcribed as written,  *)
(* including the deliberate deviations from the ideal (`in_round` admits    *)
(* sequence numbers that have not been sent; the buffer is not cleared      *)
(* between rounds).  The model (Tracer.tla), the sequence-number model      *)
(* (SeqAlloc.tla) and the conformance specification (ConfLoop.tla) all use  *)
(* these operators, so there is one source of truth.                        *)
(*                                                                          *)
(* c = [bufferSize, u16Max, initSeq, firstTtl, maxTtl, maxInflight,         *)
(*      dublin6, minRound, maxRound, grace]                                 *)
(* s = [seq, rseq, ttl, round, tf, mrt, tt, rs, rt, buf]                    *)
(*     mrt / tt / rt use 0 / 0 / -1 for `None`.                             *)
(* slot = [st, seq, ttl, round, host, t]   st \in {"N","S","F","A","C"}     *)
(***************************************************************************)
EXTENDS Integers, Sequences

EmptySlot == [st |-> "N", seq |-> 0, ttl |-> 0, round |-> 0, host |-> 0, sent |-> 0, recv |-> 0]

Init(c, now) ==
    [ seq |-> c.initSeq, rseq |-> c.initSeq, ttl |-> c.firstTtl, round |-> 0,
      tf |-> FALSE, mrt |-> 0, tt |-> 0, rs |-> now, rt |-> -1,
      buf |-> [i \in 0..(c.bufferSize - 1) |-> EmptySlot] ]

\* MAX_SEQUENCE / max_sequence()
MaxSequence(c) == IF c.dublin6 THEN c.initSeq + c.bufferSize ELSE c.u16Max - c.bufferSize

RoundSize(s) == s.seq - s.rseq

\* in_round(): note that it admits not-yet-sent sequence numbers
InRound(c, s, q) == q >= s.rseq /\ q - s.rseq < c.bufferSize

\* round_has_capacity()
HasCapacity(c, s) == RoundSize(s) < c.bufferSize

\* finished()
Finished(c, s) == c.maxRounds > 0 /\ s.round > c.maxRounds - 1

\* send_request(): may a probe be sent now?  (as repaired: the window is anchored at first-ttl - 1
\* until something answers and admits max-inflight probes, see known_findings.jsonl F8)
CanSendTtl(c, s) ==
    IF s.tt # 0 THEN s.ttl <= s.tt
    ELSE s.ttl - (IF s.mrt # 0 THEN s.mrt ELSE (IF c.firstTtl > 0 THEN c.firstTtl - 1 ELSE 0)) <= c.maxInflight
ShouldSend(c, s) == ~s.tf /\ s.ttl <= c.maxTtl /\ CanSendTtl(c, s)

\* next_probe(): allocate slot (sequence - round_sequence), post-increment ttl and sequence
NextProbe(c, s, now) ==
    [s EXCEPT !.buf[s.seq - s.rseq] = [st |-> "A", seq |-> s.seq, ttl |-> s.ttl, round |-> s.round,
                                       host |-> 0, sent |-> now, recv |-> 0],
              !.ttl = @ + 1, !.seq = @ + 1]

\* reissue_probe(): previous slot Skipped, same ttl (ttl - 1 after the post-increment), next sequence
ReissueProbe(c, s, now) ==
    [s EXCEPT !.buf[s.seq - s.rseq - 1] = [EmptySlot EXCEPT !.st = "S"],
              !.buf[s.seq - s.rseq] = [st |-> "A", seq |-> s.seq, ttl |-> s.ttl - 1, round |-> s.round,
                                       host |-> 0, sent |-> now, recv |-> 0],
              !.seq = @ + 1]

\* fail_probe(): the slot of the probe just issued becomes Failed
FailProbe(c, s) ==
    [s EXCEPT !.buf[s.seq - s.rseq - 1].st = "F"]

\* `strictReset` switches to a reset only by a router strictly beyond the established distance (the must-fail
\* instance MC_Sched_C10_strict: a stale distance then survives a path that has grown)
StrictReset(c) == "strictReset" \in DOMAIN c /\ c.strictReset
\* complete_probe(), reached only when check_trace_id and in_round hold for q
CompleteProbe(c, s, q, host, isTarget, now) ==
    LET i    == q - s.rseq
        slot == s.buf[i]
    IN  IF slot.st = "A" /\ slot.round = s.round     \* stale slots of earlier rounds are ignored (F5 fix)
        THEN LET t == slot.ttl IN
             [s EXCEPT !.buf[i] = [slot EXCEPT !.st = "C", !.host = host, !.recv = now],
                       !.tt = IF isTarget
                              THEN (IF @ = 0 THEN t ELSE IF t < @ THEN t ELSE @)
                              ELSE (IF @ # 0 /\ (IF StrictReset(c) THEN t > @ ELSE t >= @) THEN 0 ELSE @),
                       !.mrt = IF @ = 0 THEN t ELSE IF t > @ THEN t ELSE @,
                       !.rt = now,
                       !.tf = @ \/ isTarget]
        ELSE s

\* recv_response() for a response that passed `validate`, carrying trace id `id` and sequence q
\* (id 0 stands for "no identifier": UDP and TCP carry none.  As repaired (F7) an ICMP tracer no longer accepts
\* it; `legacyZero` switches the old behaviour back on for the must-fail instance MC_F7)
LegacyZero(c) == "legacyZero" \in DOMAIN c /\ c.legacyZero
CheckTraceId(c, id) == id = c.traceId \/ (id = 0 /\ (c.proto # "icmp" \/ LegacyZero(c)))
RecvResponse(c, s, id, q, host, isTarget, now) ==
    IF CheckTraceId(c, id) /\ InRound(c, s, q) THEN CompleteProbe(c, s, q, host, isTarget, now) ELSE s

\* update_round(): is the round complete now?
Exceeds(start, end, dur) == start >= 0 /\ end - start > dur
RoundComplete(c, s, now) ==
    LET d == now - s.rs IN
    \/ (d > c.minRound /\ Exceeds(s.rt, now, c.grace) /\ s.tf)
    \/ d > c.maxRound

\* publish_trace(): the largest ttl and the completion reason
Min2(a, b) == IF a <= b THEN a ELSE b
LargestTtl(c, s) ==
    IF s.tt # 0 THEN s.tt
    ELSE IF s.mrt = 0 THEN 0 ELSE Min2(s.ttl - 1, s.mrt + 1)
Reason(s) == IF s.tf THEN "tf" ELSE "tl"
Probes(s) == [i \in 0..(RoundSize(s) - 1) |-> s.buf[i]]

\* advance_round(): wrap the sequence between rounds only
AdvanceRound(c, s, now) ==
    LET q == IF s.seq >= MaxSequence(c) THEN c.initSeq ELSE s.seq IN
    [s EXCEPT !.seq = q, !.rseq = q, !.tf = FALSE, !.rt = -1, !.rs = now, !.mrt = 0,
              !.round = @ + 1, !.ttl = c.firstTtl]
=============================================================================
