------------------------------- MODULE Settings -------------------------------
(***************************************************************************)
(* The dialog state of the terminal UI: which of main view / help dialog / *)
(* settings dialog has the keyboard (frontend.rs run_app dispatches a key   *)
(* differently in each), the selected settings tab and item, and the hops-  *)
(* table column list edited from the Columns tab (tui_app.rs               *)
(* next_settings_item ... move_column_up, columns.rs toggle / move_down /   *)
(* move_up).                                                                *)
(*                                                                          *)
(* Declared[t]: the item count the code uses to bound the selection of tab  *)
(* t (settings_tabs(), or the column count for the Columns tab);            *)
(* Rows[t]: the number of rows the dialog really renders for the tab.       *)
(* C17: the selected tab and item refer to entries that exist - ItemOK      *)
(* needs Declared[t] <= Rows[t] for every tab.                              *)
(***************************************************************************)
EXTENDS Integers, Sequences, FiniteSets

CONSTANTS NTabs,        \* number of tabs
          ColumnsTab,   \* index of the Columns tab (the last one)
          Declared,     \* [0..NTabs-1 -> Nat], Declared[ColumnsTab] is ignored (the column count is used)
          Rows,         \* [0..NTabs-1 -> Nat], Rows[ColumnsTab] is ignored
          InitCols      \* the initial column list: sequence of [id, shown]

VARIABLES mode, tab, item, cols
svars == <<mode, tab, item, cols>>

Tabs == 0..(NTabs - 1)
None == -1
Count(t) == IF t = ColumnsTab THEN Len(cols) ELSE Declared[t]
RowsOf(t) == IF t = ColumnsTab THEN Len(cols) ELSE Rows[t]
Max2(a, b) == IF a > b THEN a ELSE b

SInit == mode = "main" /\ tab = 0 /\ item = None /\ cols = InitCols

\* show_settings_columns(k): open the dialog on tab k; the selection is reset only when the tab changes
ShowTab(k) == /\ mode' = "settings"
              /\ IF tab # k THEN tab' = k /\ item' = 0 ELSE UNCHANGED <<tab, item>>
              /\ UNCHANGED cols
SetMode(m) == mode' = m /\ UNCHANGED <<tab, item, cols>>
Skip == UNCHANGED svars

Swap(s, i, j) == [s EXCEPT ![i] = s[j], ![j] = s[i]]       \* 1-based positions

(***************************************************************************)
(* One key, by binding name, in the current mode (the order of the tests in *)
(* run_app matters only where two bindings share a key, which the default   *)
(* table does not)                                                          *)
(***************************************************************************)
SettingsKeys == {"settings_tui", "settings_trace", "settings_dns", "settings_geoip", "settings_bindings", "settings_theme", "settings_columns"}
TabOf(k) == CASE k = "settings_tui" -> 0 [] k = "settings_trace" -> 1 [] k = "settings_dns" -> 2 [] k = "settings_geoip" -> 3
              [] k = "settings_bindings" -> 4 [] k = "settings_theme" -> 5 [] k = "settings_columns" -> 6

KeyMain(k) ==
    IF k \in {"toggle_help", "toggle_help_alt"} THEN SetMode("help")
    ELSE IF k = "toggle_settings" THEN SetMode("settings")
    ELSE IF k \in SettingsKeys /\ TabOf(k) < NTabs THEN ShowTab(TabOf(k))
    ELSE Skip                          \* every other command belongs to Tui.tla

KeyHelp(k) ==
    IF k \in {"toggle_help", "toggle_help_alt", "clear_selection"} THEN SetMode("main")
    ELSE IF k = "toggle_settings" THEN SetMode("settings")
    ELSE IF k \in SettingsKeys /\ TabOf(k) < NTabs THEN ShowTab(TabOf(k))
    ELSE Skip

NextItem == LET mx == Max2(0, Count(tab) - 1) IN
            /\ item' = IF item = None THEN 0 ELSE IF item < mx THEN item + 1 ELSE item
            /\ UNCHANGED <<mode, tab, cols>>
PrevItem == /\ item' = IF item = None THEN Max2(0, Count(tab) - 1) ELSE IF item > 0 THEN item - 1 ELSE item
            /\ UNCHANGED <<mode, tab, cols>>
NextTab == /\ tab' = IF tab < NTabs - 1 THEN tab + 1 ELSE tab
           /\ item' = 0 /\ UNCHANGED <<mode, cols>>
PrevTab == /\ tab' = IF tab > 0 THEN tab - 1 ELSE tab
           /\ item' = 0 /\ UNCHANGED <<mode, cols>>
ToggleCol == IF tab = ColumnsTab /\ item # None
             THEN /\ cols' = [cols EXCEPT ![item + 1].shown = ~@]       \* Columns::toggle indexes the list unchecked
                  /\ UNCHANGED <<mode, tab, item>>
             ELSE Skip
MoveDown == IF tab = ColumnsTab /\ item # None /\ item < Len(cols) - 1
            THEN cols' = Swap(cols, item + 1, item + 2) /\ item' = item + 1 /\ UNCHANGED <<mode, tab>>
            ELSE Skip
MoveUp == IF tab = ColumnsTab /\ item # None /\ item > 0
          THEN cols' = Swap(cols, item + 1, item) /\ item' = item - 1 /\ UNCHANGED <<mode, tab>>
          ELSE Skip

KeySettings(k) ==
    IF k \in {"toggle_settings", "clear_selection"} THEN SetMode("main")
    ELSE IF k \in SettingsKeys /\ TabOf(k) < NTabs THEN ShowTab(TabOf(k))
    ELSE IF k = "previous_trace" THEN PrevTab
    ELSE IF k = "next_trace" THEN NextTab
    ELSE IF k = "next_hop" THEN NextItem
    ELSE IF k = "previous_hop" THEN PrevItem
    ELSE IF k = "toggle_chart" THEN ToggleCol
    ELSE IF k = "next_hop_address" THEN MoveDown
    ELSE IF k = "previous_hop_address" THEN MoveUp
    ELSE Skip

Key(k) == CASE mode = "main" -> KeyMain(k) [] mode = "help" -> KeyHelp(k) [] mode = "settings" -> KeySettings(k)

Keys == SettingsKeys \cup {"toggle_help", "toggle_help_alt", "toggle_settings", "clear_selection", "previous_trace", "next_trace",
                           "next_hop", "previous_hop", "toggle_chart", "next_hop_address", "previous_hop_address", "other"}
SNext == \E k \in Keys : Key(k)
SSpec == SInit /\ [][SNext]_svars

(***************************************************************************)
(* Properties                                                               *)
(***************************************************************************)
TabOK  == tab \in Tabs
\* the selected item is a row the dialog renders (whenever the dialog is drawn)
ItemOK == mode = "settings" => item = None \/ item < RowsOf(tab)
\* the column editor only indexes existing columns and keeps the list a permutation of the initial one
ColIndexOK == (mode = "settings" /\ tab = ColumnsTab /\ item # None) => item + 1 \in 1..Len(cols)
ColsPermutation == /\ Len(cols) = Len(InitCols)
                   /\ {cols[i].id : i \in 1..Len(cols)} = {InitCols[i].id : i \in 1..Len(InitCols)}
=============================================================================
