------------------------------ MODULE Snapshot ------------------------------
(***************************************************************************)
(* Tracer::snapshot / clear / the round handler (tracer.rs): one RwLock    *)
(* protects the State.  The writer (tracer thread) applies a round in       *)
(* sub-steps - default flow, then the flow the round is attributed to -     *)
(* while holding the write lock; readers clone the state in sub-steps while *)
(* holding a read lock; the clearer replaces the state under the write      *)
(* lock.  The shared state is abstracted to one counter per part (rounds    *)
(* applied to that part since the last clear).                              *)
(*                                                                          *)
(* C20: every completed snapshot equals k whole rounds applied to an empty  *)
(* state, k = the number of rounds applied since the last clear, in lock    *)
(* order, at the moment the reader held the lock.                           *)
(* With UseLock = FALSE (MC_Snapshot_NoLock) the property MUST fail: that   *)
(* instance is the non-vacuity check of the model.                          *)
(***************************************************************************)
EXTENDS Integers, FiniteSets, TLC
CONSTANTS Readers, MaxRounds, MaxClears, UseLock

Parts == {0, 1}
VARIABLES st,      \* shared state: part -> rounds applied since last clear
          lock,    \* [w |-> BOOLEAN, r |-> set of readers holding a read lock]
          wpc,     \* writer: "idle" | "p0" | "p1"
          cpc,     \* clearer: "idle" | "reset"
          rpc,     \* reader -> "idle" | "c0" | "c1" | "done"
          copy,    \* reader -> part -> value copied
          at,      \* reader -> ghost: rounds since last clear when it acquired the lock
          k,       \* ghost: rounds since the last clear in lock order
          nr, nc   \* counters bounding the run
vars == <<st, lock, wpc, cpc, rpc, copy, at, k, nr, nc>>

Init == /\ st = [p \in Parts |-> 0] /\ lock = [w |-> FALSE, r |-> {}]
        /\ wpc = "idle" /\ cpc = "idle" /\ rpc = [r \in Readers |-> "idle"]
        /\ copy = [r \in Readers |-> [p \in Parts |-> -1]] /\ at = [r \in Readers |-> -1]
        /\ k = 0 /\ nr = 0 /\ nc = 0

CanWrite == ~UseLock \/ (~lock.w /\ lock.r = {})
CanRead  == ~UseLock \/ ~lock.w

WAcquire == /\ wpc = "idle" /\ nr < MaxRounds /\ CanWrite
            /\ lock' = [lock EXCEPT !.w = TRUE] /\ wpc' = "p0"
            /\ UNCHANGED <<st, cpc, rpc, copy, at, k, nr, nc>>
WPart0   == /\ wpc = "p0" /\ st' = [st EXCEPT ![0] = @ + 1] /\ wpc' = "p1"
            /\ UNCHANGED <<lock, cpc, rpc, copy, at, k, nr, nc>>
WPart1   == /\ wpc = "p1" /\ st' = [st EXCEPT ![1] = @ + 1] /\ wpc' = "idle"
            /\ lock' = [lock EXCEPT !.w = FALSE] /\ k' = k + 1 /\ nr' = nr + 1
            /\ UNCHANGED <<cpc, rpc, copy, at, nc>>

CAcquire == /\ cpc = "idle" /\ nc < MaxClears /\ CanWrite /\ wpc = "idle"
            /\ lock' = [lock EXCEPT !.w = TRUE] /\ cpc' = "reset"
            /\ UNCHANGED <<st, wpc, rpc, copy, at, k, nr, nc>>
CReset   == /\ cpc = "reset" /\ st' = [p \in Parts |-> 0] /\ k' = 0 /\ cpc' = "idle"
            /\ lock' = [lock EXCEPT !.w = FALSE] /\ nc' = nc + 1
            /\ UNCHANGED <<wpc, rpc, copy, at, nr>>

RAcquire(r) == /\ rpc[r] = "idle" /\ CanRead
               /\ lock' = [lock EXCEPT !.r = @ \cup {r}] /\ rpc' = [rpc EXCEPT ![r] = "c0"]
               /\ at' = [at EXCEPT ![r] = k]
               /\ UNCHANGED <<st, wpc, cpc, copy, k, nr, nc>>
RCopy0(r)   == /\ rpc[r] = "c0" /\ copy' = [copy EXCEPT ![r][0] = st[0]] /\ rpc' = [rpc EXCEPT ![r] = "c1"]
               /\ UNCHANGED <<st, lock, wpc, cpc, at, k, nr, nc>>
RCopy1(r)   == /\ rpc[r] = "c1" /\ copy' = [copy EXCEPT ![r][1] = st[1]] /\ rpc' = [rpc EXCEPT ![r] = "done"]
               /\ lock' = [lock EXCEPT !.r = @ \ {r}]
               /\ UNCHANGED <<st, wpc, cpc, at, k, nr, nc>>
RAgain(r)   == /\ rpc[r] = "done" /\ rpc' = [rpc EXCEPT ![r] = "idle"]
               /\ UNCHANGED <<st, lock, wpc, cpc, copy, at, k, nr, nc>>

Next == WAcquire \/ WPart0 \/ WPart1 \/ CAcquire \/ CReset
        \/ \E r \in Readers : RAcquire(r) \/ RCopy0(r) \/ RCopy1(r) \/ RAgain(r)
Spec == Init /\ [][Next]_vars

\* a completed snapshot is a whole number of rounds applied to the empty state: every part carries the same
\* count, and it is the count in force while the reader held the lock
SnapshotAtomic == \A r \in Readers : rpc[r] = "done" => \A p \in Parts : copy[r][p] = at[r]
\* never a mixture: all parts agree (a weaker statement that needs no ghost)
SnapshotUniform == \A r \in Readers : rpc[r] = "done" => copy[r][0] = copy[r][1]
MutualExclusion == UseLock => ~(lock.w /\ lock.r # {}) /\ ~(wpc # "idle" /\ cpc # "idle")
=============================================================================
