SPECIFICATION Spec
CHECK_DEADLOCK FALSE
INVARIANT WellFormed
INVARIANT Accepted
INVARIANT LayerLaw
INVARIANT Indep
