SPECIFICATION Spec
CHECK_DEADLOCK FALSE
CONSTANTS
  Seqs <- QuickSeqs
  Inits <- QuickInits
INVARIANT RoundTrip
INVARIANT ForeignRejected
INVARIANT DublinPayloadFits
INVARIANT Injective
