------------------------------ MODULE MC_Sched ------------------------------
(* Model-checking instances of Tracer.tla: sets of configurations explored in one TLC run. *)
EXTENDS Tracer

Base == [ bufferSize |-> 0, u16Max |-> 0,
          initSeq |-> 10, firstTtl |-> 1, maxTtl |-> 4, maxInflight |-> 2, dublin6 |-> FALSE,
          minRound |-> 1, maxRound |-> 3, grace |-> 1, readTimeout |-> 1, maxRounds |-> 2,
          traceId |-> 7, proto |-> "icmp", dist |-> 3, pathLen |-> 2,
          sendOut |-> {"ok"}, recvFaults |-> FALSE, noise |-> {} ]

\* C06 / C01 / C10: every 1 <= first <= max <= 4, max-inflight 1..4, target distance 0..4, silent tail
SchedConfigs ==
    { [Base EXCEPT !.firstTtl = f, !.maxTtl = m, !.maxInflight = i, !.dist = d, !.pathLen = p] :
        f \in 1..3, m \in 1..4, i \in 1..4, d \in 0..4, p \in 0..3 } 

SchedOK == { x \in SchedConfigs : x.firstTtl <= x.maxTtl /\ (x.dist = 0 \/ x.pathLen <= x.dist) }

\* C10: the route changes after the first round to a longer or a shorter one (with silent routers before the target)
GrowConfigs ==
    { [Base EXCEPT !.firstTtl = f, !.maxTtl = 4, !.maxInflight = i, !.dist = d, !.pathLen = d - 1, !.maxRounds = 3]
        @@ [changeAt |-> 1, dist2 |-> d2, pathLen2 |-> p2] :
        f \in 1..2, i \in 1..3, d \in 1..3, d2 \in 0..4, p2 \in 0..3 }
GrowOK == { x \in GrowConfigs : x.dist2 # x.dist /\ (x.dist2 = 0 \/ x.pathLen2 < x.dist2) }
GrowQuick == { [x EXCEPT !.maxRounds = 2] : x \in { y \in GrowOK : y.firstTtl = 1 /\ y.maxInflight \in {1, 3} } }
GrowStrict == { x @@ [strictReset |-> TRUE] : x \in { y \in GrowOK : y.pathLen2 = y.dist2 - 1 } }

\* C03: noise of every kind, including the responses of a tracer to which the command line gave identifier zero
NoiseConfigs ==
    { [Base EXCEPT !.maxInflight = i, !.dist = d, !.pathLen = p, !.proto = pr, !.maxRounds = r, !.noise = n] :
        i \in {1, 2, 4}, d \in {0, 2, 3}, p \in {1, 2}, pr \in {"icmp", "udp"}, r \in {2},
        n \in {{"dup", "late"}, {"foreign", "never", "zero"}, {"dup", "never"}} }
NoiseMid == { x \in NoiseConfigs : x.maxInflight \in {1, 2} /\ x.noise \in {{"dup", "late"}, {"foreign", "never", "zero"}} }
NoiseQuick == { [x EXCEPT !.maxRound = 2, !.maxTtl = 3] : x \in
                  { y \in NoiseConfigs : y.maxInflight = 2 /\ y.dist \in {0, 3} /\ y.pathLen = 2
                                         /\ y.noise \in {{"dup", "late"}, {"foreign", "never", "zero"}} } }

\* C09: faults at every step
FaultConfigs ==
    { [Base EXCEPT !.maxTtl = 2, !.dist = d, !.pathLen = 1, !.proto = pr, !.maxRounds = 2,
                   !.sendOut = so, !.recvFaults = rf] :
        d \in {0, 2}, pr \in {"icmp", "tcp"}, so \in {{"ok", "failed"}, {"ok", "fatal"}, {"ok", "inuse", "failed"}},
        rf \in BOOLEAN }
FaultOK == { x \in FaultConfigs : ("inuse" \in x.sendOut) => x.proto = "tcp" }

\* C08: all settings with min <= max including zeros
TimingConfigs ==
    { [Base EXCEPT !.minRound = mn, !.maxRound = mx, !.grace = g, !.readTimeout = rt, !.dist = d,
                   !.maxTtl = 2, !.pathLen = 1, !.maxRounds = 2, !.noise = {"dup"}] :
        mn \in 0..3, mx \in 0..3, g \in 0..2, rt \in 0..2, d \in {0, 2} }
TimingOK == { x \in TimingConfigs : x.minRound <= x.maxRound }

\* F7 (repaired): before the repair identifier zero was accepted by every ICMP tracer; with the old behaviour switched
\* back on NoiseIsNoOp MUST be violated (the non-vacuity instance of the action property)
F7Configs == { [Base EXCEPT !.noise = {"zero"}, !.maxRounds = 1] @@ [legacyZero |-> TRUE] }

\* hide the action-name ghost from the fingerprint
View == <<c, s, pc, now, flight, h, pub>>
=============================================================================
