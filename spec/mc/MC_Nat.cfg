SPECIFICATION Spec
CHECK_DEADLOCK FALSE
CONSTANTS
  N = 6
  MaxDev = 3
INVARIANT FoldMatchesProperty
INVARIANT NoDeviceNoNat
INVARIANT SingleDevice
