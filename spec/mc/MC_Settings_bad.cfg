SPECIFICATION SSpec
CHECK_DEADLOCK FALSE
CONSTANTS
  NTabs = 7
  ColumnsTab = 6
  Declared <- DeclBad
  Rows <- RowsOK
  InitCols <- Cols3
INVARIANT TabOK
INVARIANT ItemOK
INVARIANT ColIndexOK
INVARIANT ColsPermutation
