SPECIFICATION Spec
CHECK_DEADLOCK FALSE
CONSTANTS
  MaxLen = 3
  Addrs = {1, 2}
  MaxFlows = 2
  MaxSteps = 4
INVARIANT Bounded
INVARIANT DenseIds
INVARIANT AgreeLast
INVARIANT NotAttributedOnlyWhenFull
PROPERTY Monotone
PROPERTY AtMostOneNew
