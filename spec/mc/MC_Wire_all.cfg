SPECIFICATION Spec
CHECK_DEADLOCK FALSE
CONSTANTS
  Seqs <- AllSeqs
  Inits <- ZeroInit
INVARIANT RoundTrip
INVARIANT ForeignRejected
INVARIANT DublinPayloadFits
INVARIANT Injective
