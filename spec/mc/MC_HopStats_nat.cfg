SPECIFICATION Spec
CHECK_DEADLOCK FALSE
CONSTANTS
  MaxRoundsN = 2
  MaxSamples = 0
  FirstTtl = 1
  NProbes = 3
  Opts = {"Cn","Cx","A"}
  Largests = {3}
INVARIANT ApplyEqualsAgg
INVARIANT Laws
INVARIANT WindowOK
INVARIANT TableOK
