SPECIFICATION Spec
CHECK_DEADLOCK FALSE
CONSTANTS
  MaxRoundsN = 2
  MaxSamples = 3
  FirstTtl = 1
  NProbes = 4
  Opts = {"C1a","A","S"}
  Largests = {0,4}
INVARIANT ApplyEqualsAgg
INVARIANT Laws
INVARIANT WindowOK
INVARIANT TableOK
