SPECIFICATION Spec
CHECK_DEADLOCK FALSE
INVARIANT Safe
INVARIANT Compliant
INVARIANT Legacy
INVARIANT Plain
INVARIANT ObjBound
