------------------------------ MODULE MC_Flows ------------------------------
EXTENDS Flows, TLC
CONSTANTS MaxLen, Addrs, MaxFlows, MaxSteps

VARIABLES reg, lastId, lastFlow, steps
vars == <<reg, lastId, lastFlow, steps>>

AllFlows == UNION {[1..n -> Addrs \cup {0}] : n \in 0..MaxLen}

Init == reg = <<>> /\ lastId = 0 /\ lastFlow = <<>> /\ steps = 0
Next == /\ steps < MaxSteps
        /\ \E f \in AllFlows :
             LET r == IF Len(reg) < MaxFlows THEN Register(reg, f)
                      ELSE LET i == FirstMatch(reg, f) IN
                           IF i = 0 THEN <<reg, 0>>
                           ELSE IF Check(reg[i], f) = "merge" THEN <<[reg EXCEPT ![i] = Merge(reg[i], f)], i>> ELSE <<reg, i>>
             IN  reg' = r[1] /\ lastId' = r[2] /\ lastFlow' = f
        /\ steps' = steps + 1
Spec == Init /\ [][Next]_vars

Bounded   == Len(reg) <= MaxFlows
DenseIds  == lastId \in 0..Len(reg)
AgreeLast == lastId > 0 => Agrees(reg[lastId], lastFlow)
Monotone  == [][Len(reg') >= Len(reg) /\ \A i \in 1..Len(reg) : Extends(reg[i], reg'[i])]_vars
AtMostOneNew == [][Len(reg') <= Len(reg) + 1]_vars
NotAttributedOnlyWhenFull == (lastId = 0 /\ steps > 0) => Len(reg) = MaxFlows
=============================================================================
