SPECIFICATION Spec
CHECK_DEADLOCK FALSE
CONSTANTS
  NTraces = 2
  MaxHops = 2
  MaxFlows = 1
  MaxAddrs = 2
INVARIANT DrawOK
INVARIANT NoFlowKeyCrash
INVARIANT PrivacyRange
PROPERTY PrivacyStep
