------------------------------- MODULE MC_Ext -------------------------------
EXTENDS Ext, TLC
VARIABLES lf, total, unit
vars == <<lf, total, unit>>
Init == lf \in 0..255 /\ total \in 0..1016 /\ unit \in {4, 8}
Next == UNCHANGED vars
Spec == Init /\ [][Next]_vars
Safe == SplitSafe(lf * unit, total)
Compliant == (total >= 20 /\ total <= 900) => \A e \in {4, 8, 12, 40} : CompliantRecovered(total, unit, e)
Legacy == \A e \in {4, 8, 12, 40} : LegacyRecovered(e)
Plain == PlainRecovered(total)
\* iteration terminates within the bound and never leaves the extension
ObjBound == \A lens \in {<<>>, <<4>>, <<8, 8>>, <<4, 0, 8>>, <<lf, 8>>, <<8, lf>>, <<3>>, <<65535>>} :
              LET o == Objects(lens, total) IN Len(o) <= total \div 4 /\ (Len(o) > 0 => 4 + o[1] <= total)
=============================================================================
