SPECIFICATION Spec
CHECK_DEADLOCK FALSE
VIEW View
CONSTANTS
  BufferSize = 6
  U16Max = 40
  Configs <- FaultOK
INVARIANT ExactlyNRounds
INVARIANT PubNumbering
INVARIANT NeverTooMany
INVARIANT ErrorOnlyAfterFatal
INVARIANT PublishedMatchesTruth
PROPERTY FatalEnds
