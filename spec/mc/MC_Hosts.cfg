SPECIFICATION HSpec
CHECK_DEADLOCK FALSE
CONSTANTS
  MaxHops = 3
  MaxAddrs = 3
  Legacy = FALSE
INVARIANT LimitOK
