------------------------------ MODULE MC_Packet ------------------------------
(* Lemmas about the Layout and Checksum tables, checked exhaustively by TLC. *)
EXTENDS Integers, Sequences, FiniteSets, TLC
L  == INSTANCE Layout
CK == INSTANCE Checksum

CONSTANTS Seqs

AllSeqs == 0..65535
QuickSeqs == (0..1030) \cup {32767, 32768, 33434, 65279, 65280, 65534, 65535}
VARIABLES seq, ports
vars == <<seq, ports>>
Init == seq \in Seqs /\ ports \in {<<5000, 33434>>, <<65535, 65535>>, <<0, 1>>, <<33434, 80>>}
Next == UNCHANGED vars
Spec == Init /\ [][Next]_vars

\* ---- Paris: field := sequence, payload := displaced checksum; the datagram still verifies --------
Pseudo == <<49320, 258, 2560, 1, 17, 10>>          \* 192.168.1.2 -> 10.0.0.1, protocol 17, UDP length 10
Plain(ck, pay) == Pseudo \o <<ports[1], ports[2], 10, ck, pay>>
Sum0 == CK!Rfc1071(Plain(0, seq))                   \* the RFC checksum of the datagram whose payload is the sequence
ParisOnWire == Plain(seq, Sum0)                     \* after the swap performed by dispatch_udp_probe_raw
ParisVerifies == CK!Verifies(Plain(Sum0, seq)) /\ CK!Verifies(ParisOnWire)
ParisCarriesSeq == ParisOnWire[Len(Pseudo) + 4] = seq

\* ---- Layout: the primary fields of each fixed header tile it exactly, without overlap ------------
Primary == [ ipv4 |-> {"version", "header_length", "dscp", "ecn", "total_length", "identification", "flags_and_fragment_offset",
                       "ttl", "protocol", "checksum", "source", "destination"},
             ipv6 |-> {"version", "traffic_class", "flow_label", "payload_length", "next_header", "hop_limit", "source", "destination"},
             udp  |-> {"source", "destination", "length", "checksum"},
             tcp  |-> {"source", "destination", "sequence", "acknowledgement", "data_offset", "reserved", "flags", "window_size",
                       "checksum", "urgent_pointer"},
             icmp4_echo_request |-> {"type", "code", "checksum", "identifier", "sequence"},
             mpls_member |-> {"label", "exp", "bos", "ttl"} ]
Tiles(ty) ==
    /\ UNION {L!Bits(L!Fields[ty][f]) : f \in Primary[ty]} = 0..(8 * L!MinSize[ty] - 1)
    /\ \A f1, f2 \in Primary[ty] : f1 # f2 => L!Bits(L!Fields[ty][f1]) \cap L!Bits(L!Fields[ty][f2]) = {}
LayoutTiles == \A ty \in DOMAIN Primary : Tiles(ty)
\* composite fields are exactly the union of their parts
TosIsDscpEcn == L!Bits(L!Fields["ipv4"]["tos"]) = L!Bits(L!Fields["ipv4"]["dscp"]) \cup L!Bits(L!Fields["ipv4"]["ecn"])

\* ---- SetInt algebra: read-after-write, idempotence, frame -------------------------------------------
Hdr == <<165, 90, 255, 1, 128, 127, 254, 3>>
GetInt(b, spec) ==
    LET off == spec[1] bit == spec[2] w == spec[3] n == (bit + w + 7) \div 8
        X == IF n = 1 THEN b[off + 1] ELSE IF n = 2 THEN b[off + 1] * 256 + b[off + 2] ELSE b[off + 1] * 65536 + b[off + 2] * 256 + b[off + 3]
    IN  (X \div (2 ^ (8 * n - bit - w))) % (2 ^ w)
SmallSpecs == {<<0, 0, 4>>, <<0, 4, 4>>, <<1, 0, 6>>, <<1, 6, 2>>, <<0, 4, 8>>, <<1, 4, 20>>, <<4, 7, 9>>, <<2, 4, 3>>, <<2, 7, 1>>, <<2, 0, 16>>}
SetGet == \A sp \in SmallSpecs : LET v == seq % (2 ^ sp[3]) b2 == L!SetInt(Hdr, sp, v) IN
            /\ GetInt(b2, sp) = v
            /\ L!SetInt(b2, sp, v) = b2
            /\ L!SetInt(b2, sp, GetInt(Hdr, sp)) = Hdr
=============================================================================
