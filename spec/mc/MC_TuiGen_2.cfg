SPECIFICATION GSpec
CHECK_DEADLOCK FALSE
CONSTANTS
  NTraces = 2
  MaxHops = 3
  MaxFlows = 1
  MaxAddrs = 2
INVARIANT Emit
