SPECIFICATION Spec
CHECK_DEADLOCK FALSE
CONSTANTS
  Seqs <- QuickSeqs
INVARIANT ParisVerifies
INVARIANT ParisCarriesSeq
INVARIANT LayoutTiles
INVARIANT TosIsDscpEcn
INVARIANT SetGet
