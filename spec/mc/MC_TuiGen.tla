------------------------------ MODULE MC_TuiGen ------------------------------
(* Behaviour generator for Tui.tla: TLC -simulate prints one script per behaviour (the environment and  *)
(* user choices: data updates and keys); the harness replays it into the real TuiApp / run_app / renderer. *)
EXTENDS Tui, Sequences, Json

VARIABLE hist
K(tok, A) == A /\ hist' = Append(hist, tok)
GInit == Init /\ hist = <<[d |-> "init", t |-> privacy, f |-> 0]>>
GNext ==
    \/ \E t \in Traces, f \in Flows : K([d |-> "grow", t |-> t, f |-> f], GrowF(t, f) /\ DataUnch)
    \/ \E t \in Traces : K([d |-> "flow", t |-> t, f |-> 0], NewFlow(t) /\ DataUnch)
    \* one more address at an existing hop (single-flow configurations only: with several flows a new address would
    \* register a new flow in the implementation)
    \/ \E t \in Traces, i \in 0..(MaxHops - 1) :
          MaxFlows = 1 /\ i < data[t].hops[0] /\ K([d |-> "addr", t |-> t, f |-> i], NewAddrI(t, i) /\ DataUnch)
    \/ (Tick /\ hist' = hist) \/ (Draw /\ hist' = hist)
    \/ K([d |-> "tick", t |-> 0, f |-> 0], NoKey)
    \/ K([d |-> "next_hop", t |-> 0, f |-> 0], NextHop) \/ K([d |-> "previous_hop", t |-> 0, f |-> 0], PrevHop)
    \/ K([d |-> "next_trace", t |-> 0, f |-> 0], NextTrace \/ NextFlow) \/ K([d |-> "previous_trace", t |-> 0, f |-> 0], PrevTrace \/ PrevFlow)
    \/ K([d |-> "next_hop_address", t |-> 0, f |-> 0], NextAddr) \/ K([d |-> "previous_hop_address", t |-> 0, f |-> 0], PrevAddr)
    \/ K([d |-> "toggle_freeze", t |-> 0, f |-> 0], ToggleFreeze) \/ K([d |-> "toggle_flows", t |-> 0, f |-> 0], ToggleFlows)
    \/ K([d |-> "clear_trace_data", t |-> 0, f |-> 0], ClearTrace) \/ K([d |-> "clear_selection", t |-> 0, f |-> 0], ClearSel)
    \/ K([d |-> "expand_privacy", t |-> 0, f |-> 0], ExpandPrivacy) \/ K([d |-> "contract_privacy", t |-> 0, f |-> 0], ContractPrivacy)
GSpec == GInit /\ [][GNext]_<<vars, hist>>
Depth == 60
Emit == Len(hist) # Depth \/ PrintT(<<"SCRIPT", ToJson([ntraces |-> NTraces, maxflows |-> MaxFlows, privacy |-> hist[1].t, steps |-> Tail(hist)])>>)
=============================================================================
