SPECIFICATION Spec
CHECK_DEADLOCK FALSE
CONSTANTS
  Readers <- R2
  MaxRounds = 3
  MaxClears = 2
  UseLock = FALSE
INVARIANT SnapshotAtomic
INVARIANT SnapshotUniform
INVARIANT MutualExclusion
