SPECIFICATION GSpec
CHECK_DEADLOCK FALSE
CONSTANTS
  InitSeqs <- GenInits
  Regimes <- GeneralOnly
  Sizes <- GenSizes
  MaxPerRound = 512
INVARIANT Emit
