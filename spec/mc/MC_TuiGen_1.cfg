SPECIFICATION GSpec
CHECK_DEADLOCK FALSE
CONSTANTS
  NTraces = 1
  MaxHops = 4
  MaxFlows = 3
  MaxAddrs = 2
INVARIANT Emit
