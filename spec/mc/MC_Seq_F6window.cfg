SPECIFICATION Spec
CHECK_DEADLOCK FALSE
VIEW View
CONSTANTS
  InitSeqs <- BoundaryInits
  Regimes <- BothRegimes
  Sizes <- BoundarySizes
  MaxPerRound = 254
PROPERTY NoPrevInWindowA
