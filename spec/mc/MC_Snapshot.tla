---- MODULE MC_Snapshot ----
EXTENDS Snapshot
R2 == {"r1", "r2"}
====
