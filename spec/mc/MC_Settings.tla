----------------------------- MODULE MC_Settings -----------------------------
(* Settings.tla with 7 tabs as in the code, small item counts, 3 columns.  Instance `ok`: the declared counts *)
(* do not exceed the rendered rows (as in the code: one declared count is even one short).  Instance `bad`    *)
(* (must fail): a declared count exceeds the rendered rows.                                                  *)
EXTENDS Settings
DeclOK  == [t \in 0..6 |-> CASE t = 0 -> 2 [] t = 1 -> 3 [] t = 2 -> 1 [] t = 3 -> 1 [] t = 4 -> 2 [] t = 5 -> 2 [] t = 6 -> 0]
RowsOK  == [t \in 0..6 |-> CASE t = 0 -> 2 [] t = 1 -> 3 [] t = 2 -> 1 [] t = 3 -> 1 [] t = 4 -> 3 [] t = 5 -> 2 [] t = 6 -> 0]
DeclBad == [DeclOK EXCEPT ![2] = 2]
Cols3   == <<[id |-> "h", shown |-> TRUE], [id |-> "o", shown |-> TRUE], [id |-> "j", shown |-> FALSE]>>
=============================================================================
