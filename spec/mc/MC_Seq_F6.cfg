SPECIFICATION Spec
CHECK_DEADLOCK FALSE
VIEW View
CONSTANTS
  InitSeqs <- BoundaryInits
  Regimes <- GeneralOnly
  Sizes <- BoundarySizes
  MaxPerRound = 512
PROPERTY NoPrevReissuedA
