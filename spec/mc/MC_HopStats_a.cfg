SPECIFICATION Spec
CHECK_DEADLOCK FALSE
CONSTANTS
  MaxRoundsN = 2
  MaxSamples = 2
  FirstTtl = 1
  NProbes = 3
  Opts = {"C1a","C3b","A","F","S"}
  Largests = {0,2,3}
INVARIANT ApplyEqualsAgg
INVARIANT Laws
INVARIANT WindowOK
INVARIANT TableOK
