SPECIFICATION Spec
CHECK_DEADLOCK FALSE
VIEW View
CONSTANTS
  InitSeqs <- BoundaryInits
  Regimes <- BothRegimes
  Sizes <- AllSizes
  MaxPerRound = 254
INVARIANT SeqBound
INVARIANT IssuedBelowMax
INVARIANT RoundFitsBuffer
INVARIANT DublinPayloadFits
INVARIANT InitAllowed
PROPERTY ForwardOrRestart
PROPERTY RestartOnlyAtMax
PROPERTY NoPrevReissuedA
