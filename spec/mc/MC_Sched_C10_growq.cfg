SPECIFICATION Spec
CHECK_DEADLOCK FALSE
VIEW View
CONSTANTS
  BufferSize = 6
  U16Max = 40
  Configs <- GrowQuick
INVARIANT RoundWellFormed
INVARIANT TargetDistanceReported
INVARIANT EstablishedBeyondRouters
INVARIANT NothingAnswered
