SPECIFICATION Spec
CHECK_DEADLOCK FALSE
CONSTANTS
  NTraces = 1
  MaxHops = 3
  MaxFlows = 2
  MaxAddrs = 2
INVARIANT DrawOK
INVARIANT NoFlowKeyCrash
INVARIANT PrivacyRange
PROPERTY PrivacyStep
