SPECIFICATION Spec
CHECK_DEADLOCK FALSE
VIEW View
CONSTANTS
  InitSeqs <- BoundaryInits
  Regimes <- GeneralOnly
  Sizes <- BoundarySizes
  MaxPerRound = 512
INVARIANT SeqBound
INVARIANT IssuedBelowMax
INVARIANT RoundFitsBuffer
INVARIANT DublinPayloadFits
INVARIANT InitAllowed
PROPERTY ForwardOrRestart
PROPERTY RestartOnlyAtMax
