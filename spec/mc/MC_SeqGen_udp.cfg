SPECIFICATION GSpec
CHECK_DEADLOCK FALSE
CONSTANTS
  InitSeqs <- GenInits
  Regimes <- BothRegimes
  Sizes <- GenSizes
  MaxPerRound = 254
INVARIANT Emit
