SPECIFICATION Spec
CHECK_DEADLOCK FALSE
VIEW View
CONSTANTS
  BufferSize = 6
  U16Max = 40
  Configs <- GrowStrict
INVARIANT EstablishedBeyondRouters
