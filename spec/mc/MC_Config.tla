------------------------------ MODULE MC_Config ------------------------------
(* Every tracer configuration over the boundary values of each parameter: what validation accepts lies in  *)
(* the domain of the core; and the layering operator over a small value domain.                             *)
EXTENDS Config, TLC

VARIABLES c, lay
Ttls == {0, 1, 2, 254, 255}
Cfgs == [proto : Protos, strat : Strats, ports : PortDir, priv : BOOLEAN, first : Ttls, max : Ttls,
         inflight : {0, 1, 24}, initseq : {0, 64511, 64512}, psize : {0, 27, 28, 47, 48, 1024, 1025}, fam : {4, 6}]
Vals == {Absent, "a", "b"}
Init == c \in Cfgs /\ lay \in [cli : Vals, file : Vals]
Next == UNCHANGED <<c, lay>>
Spec == Init /\ [][Next]_<<c, lay>>

WellFormed == CfgOK(c)
Accepted   == AcceptedCanRun(c) /\ CliAcceptedCanRun(c)
\* the start-up check before the repair of F28: an unprivileged UDP paris / dublin configuration reaches the core
LegacyStart(x)   == /\ x.psize <= MaxPacket
                    /\ (x.proto \in {"icmp", "udp"} /\ x.first <= x.max /\ x.inflight > 0) => x.psize >= MinPacket(x.fam, x.proto)
AcceptedLegacy   == BuilderAccepts(c) /\ LegacyStart(c) => Supported(c)
\* non-vacuity: some configuration runs, some is rejected at each stage, and the CLI accepts some
LayerLaw == LET e == Layer(lay.cli, lay.file, "d") IN
            /\ (lay.cli # Absent => e = lay.cli)
            /\ (lay.cli = Absent /\ lay.file # Absent => e = lay.file)
            /\ (lay.cli = Absent /\ lay.file = Absent => e = "d")
\* independence: the effective value of one option does not change when another option's inputs change
Indep == \A x, y \in Vals :
            Effective([o1 |-> lay.cli, o2 |-> x], [o1 |-> lay.file, o2 |-> y], [o1 |-> "d1", o2 |-> "d2"]).o1
              = Layer(lay.cli, lay.file, "d1")
=============================================================================
