SPECIFICATION Spec
CHECK_DEADLOCK FALSE
VIEW View
CONSTANTS
  BufferSize = 6
  U16Max = 40
  Configs <- GrowOK
INVARIANT RoundWellFormed
INVARIANT TargetDistanceReported
INVARIANT EstablishedBeyondRouters
INVARIANT NothingAnswered
