---------------------------- MODULE MC_HopStats ----------------------------
(* Apply*(rounds) = Agg(rounds) and the conservation laws, for all round sequences within bounds. *)
EXTENDS HopStats, TLC

CONSTANTS MaxRoundsN, MaxSamples, FirstTtl, NProbes, Opts, Largests

VARIABLES rounds, fs
vars == <<rounds, fs>>

P(st, ttl, rtt, host, rnd, ck) ==
    [st |-> st, ttl |-> ttl, rtt |-> rtt, host |-> host, seq |-> 100 + 10 * rnd + ttl, sport |-> 5000, dport |-> 33000 + ttl,
     kind |-> IF host = 9 THEN "er" ELSE "te", tos |-> host, ext |-> (IF host = 2 THEN <<7>> ELSE <<>>), eck |-> ck[1], ack |-> ck[2], round |-> rnd]

\* the option alphabet for one probe
Mk(o, ttl, rnd) ==
    CASE o = "C1a" -> P("C", ttl, 1, 1, rnd, <<-1, -1>>)
      [] o = "C3a" -> P("C", ttl, 3, 1, rnd, <<-1, -1>>)
      [] o = "C3b" -> P("C", ttl, 3, 2, rnd, <<-1, -1>>)
      [] o = "C0t" -> P("C", ttl, 0, 9, rnd, <<-1, -1>>)
      [] o = "Cn"  -> P("C", ttl, 2, 1, rnd, <<7, 7>>)       \* checksum as expected
      [] o = "Cx"  -> P("C", ttl, 2, 1, rnd, <<7, 8>>)       \* rewritten checksum
      [] o = "A"   -> P("A", ttl, 0, 0, rnd, <<-1, -1>>)
      [] o = "F"   -> P("F", ttl, 0, 0, rnd, <<-1, -1>>)
      [] OTHER     -> [st |-> "S"]

Rounds(rnd) ==
    { [largest |-> lg, probes |-> [i \in 1..n |-> Mk(f[i], FirstTtl + i - 1, rnd)]] :
        n \in 0..NProbes, lg \in Largests, f \in [1..NProbes -> Opts] }

Init == rounds = <<>> /\ fs = Flow0
Next == /\ Len(rounds) < MaxRoundsN
        /\ \E r \in Rounds(Len(rounds)) :
              /\ rounds' = Append(rounds, r)
              /\ fs' = Apply(fs, r, MaxSamples)
Spec == Init /\ [][Next]_vars

Ttls == FirstTtl..(FirstTtl + NProbes - 1)
ApplyEqualsAgg == \A t \in Ttls : HopEq(HopOf(fs, t), AggHop(rounds, t, MaxSamples))
Laws == \A t \in Ttls : HopLaws(HopOf(fs, t), MaxSamples)
WindowOK == /\ fs.lowest = AggLowest(rounds)
            /\ fs.highest = AggHighest(rounds)
            /\ fs.highestRound = (IF Len(rounds) = 0 THEN 0 ELSE rounds[Len(rounds)].largest)
            /\ fs.rc = Len(rounds)
\* the hop table (C10): gap-free, own TTLs, never fails for well-formed rounds
RoundWF(r) == r.largest = 0 \/ r.largest >= FirstTtl
TableOK == (\A i \in 1..Len(rounds) : RoundWF(rounds[i])) =>
             LET hr == HopRange(fs) IN
             \A i \in 1..Len(hr) : hr[i].ttl \in {0, fs.lowest + i - 1} /\ (hr[i].sent > 0 => hr[i].ttl = fs.lowest + i - 1)
=============================================================================
