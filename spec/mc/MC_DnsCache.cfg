SPECIFICATION Spec
CHECK_DEADLOCK FALSE
CONSTANTS
  Addrs = {"a", "b"}
  QueueCap = 2
  Ttl = 1
  None = None
  MaxT = 3
INVARIANT TypeOK
INVARIANT PendingHasRequest
PROPERTY Settles
