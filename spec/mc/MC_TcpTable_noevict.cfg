SPECIFICATION Spec
CHECK_DEADLOCK FALSE
CONSTANTS
  Cap = 2
  Timeout = 2
  SockIds = {1, 2, 3, 4}
  MaxT = 4
  Evicts = FALSE
INVARIANT Bounded
