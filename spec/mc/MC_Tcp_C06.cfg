SPECIFICATION Spec
CHECK_DEADLOCK FALSE
VIEW View
CONSTANTS
  BufferSize = 6
  U16Max = 40
  Configs <- FaultOK
INVARIANT TypeOK
INVARIANT SeqBound
INVARIANT TtlOrder
INVARIANT TtlLimit
INVARIANT NoSendAfterTarget
INVARIANT NotBeyondEstablished
INVARIANT Window
