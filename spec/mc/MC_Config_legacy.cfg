SPECIFICATION Spec
CHECK_DEADLOCK FALSE
INVARIANT AcceptedLegacy
