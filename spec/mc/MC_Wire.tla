------------------------------ MODULE MC_Wire ------------------------------
(* Round trip Decode(Quote(Encode(p))) = p.seq and rejection of foreign datagrams, per cell and sequence. *)
EXTENDS Wire, TLC
CONSTANTS Seqs, Inits

QuickSeqs == {0, 1, 2, 255, 256, 511, 512, 765, 766, 32767, 32768, 33434, 33945, 64511, 65022, 65023, 65533, 65534}
QuickInits == {0, 33434, 64511}
AllSeqs == 0..65534
ZeroInit == {0}

VARIABLES c, p
vars == <<c, p>>

Cells == { x \in [ proto : {"icmp", "udp", "tcp"}, fam : {4, 6}, strat : {"classic", "paris", "dublin"},
                   ports : {"none", "src", "dest", "both"}, priv : BOOLEAN, init_seq : Inits,
                   sport : {5000}, dport : {33500}, trace_id : {1, 65535}, psize : {84}, pattern : {0}, tos : {0, 255} ] :
             Supported(x) }

\* the exhaustive instance varies the sequence over 0..65534 and fixes the dimensions that do not
\* interact with it
SmallCells == { x \in Cells : x.trace_id = 1 /\ x.tos = 0 }
Init == /\ c \in (IF Cardinality(Seqs) > 1000 THEN SmallCells ELSE Cells)
        /\ p \in [seq : Seqs, ttl : {1, 254}, round : IF Cardinality(Seqs) > 1000 THEN {3} ELSE {0, 70000}]
        /\ p.seq >= c.init_seq
        /\ (c.strat = "dublin" /\ c.fam = 6) => p.seq - c.init_seq < 766
Next == UNCHANGED vars
Spec == Init /\ [][Next]_vars

H == Encode(c, p)
RoundTrip == \A v \in Variations : Accepts(c, Quote(H, v)) /\ Decode(c, Quote(H, v)) = p.seq
ForeignRejected == \A f \in Foreign(c, H) : ~Accepts(c, Quote(f, "plain"))
DublinPayloadFits == (c.strat = "dublin" /\ c.fam = 6) => H.paylen <= 1024 - 40 - 8
\* distinct probes of one round are distinguishable on the wire
Injective == \A q \in {p.seq + 1, p.seq + 511} : q < 65535 => Decode(c, Quote(Encode(c, [p EXCEPT !.seq = q]), "plain")) # p.seq
=============================================================================
