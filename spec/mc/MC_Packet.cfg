SPECIFICATION Spec
CHECK_DEADLOCK FALSE
CONSTANTS
  Seqs <- AllSeqs
INVARIANT ParisVerifies
INVARIANT ParisCarriesSeq
INVARIANT LayoutTiles
INVARIANT TosIsDscpEcn
INVARIANT SetGet
