SPECIFICATION Spec
CHECK_DEADLOCK FALSE
CONSTANTS
  MaxRoundsN = 3
  MaxSamples = 1
  FirstTtl = 2
  NProbes = 2
  Opts = {"C1a","C3a","C3b","C0t","A","F","S"}
  Largests = {0,2,3}
INVARIANT ApplyEqualsAgg
INVARIANT Laws
INVARIANT WindowOK
INVARIANT TableOK
