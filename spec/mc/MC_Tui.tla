---- MODULE MC_Tui ----
EXTENDS Tui
====
