------------------------------ MODULE MC_SeqGen ------------------------------
(* Behaviour generator: TLC -simulate prints one JSON walk per behaviour; the harness replays   *)
(* each walk into the real TracerState (spec -> impl direction of the binding).                 *)
EXTENDS SeqAlloc, Sequences, Json

VARIABLE hist
GInit == Init /\ hist = <<>>
GNext == \/ \E k \in Sizes : Round(k) /\ hist' = Append(hist, k)
GSpec == GInit /\ [][GNext]_<<vars, hist>>

Depth == 40
Emit == Len(hist) # Depth \/ PrintT(<<"WALK", ToJson([init |-> init, regime |-> regime, max |-> MaxPerRound, sizes |-> hist])>>)
GenInits == {0, 1, 33434, 60000, 63999, 64000, 64510, 64511}
GenSizes == {0, 1, 2, 3, 17, 127, 253, 254, 255, 256, 257, 258, 400, 511, 512}
BothRegimes == {"general", "dublin6"}
GeneralOnly == {"general"}
=============================================================================
