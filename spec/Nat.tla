--------------------------------- MODULE Nat ---------------------------------
(***************************************************************************)
(* C19: NAT detection for IPv4/UDP/Dublin.                                 *)
(* A path of N hops; a set Dev of distances at which an address/port       *)
(* rewriting device sits; a set Resp of hops that answer in the round.     *)
(* The datagram quoted by hop i carries the UDP checksum as rewritten by   *)
(* every device at distance <= i.  Fold(...) is the implementation's        *)
(* per-round fold (state.rs nat_status with prev_hop_checksum); Expected    *)
(* is the declarative statement of the property.  TLC proves them equal     *)
(* for all paths within bounds.                                             *)
(***************************************************************************)
EXTENDS Integers, Sequences, FiniteSets, TLC
CONSTANTS N, MaxDev

HS == INSTANCE HopStats

VARIABLES dev, resp
vars == <<dev, resp>>

\* checksum seen at distance i: the original (100) rewritten once per device passed; rewrites never
\* restore an earlier value (each device adds a distinct power of two)
Ck(i, d) == 100 + (IF 1 \in d /\ 1 <= i THEN 1 ELSE 0) + (IF 2 \in d /\ 2 <= i THEN 2 ELSE 0)
              + (IF 3 \in d /\ 3 <= i THEN 4 ELSE 0) + (IF 4 \in d /\ 4 <= i THEN 8 ELSE 0)
              + (IF 5 \in d /\ 5 <= i THEN 16 ELSE 0) + (IF 6 \in d /\ 6 <= i THEN 32 ELSE 0)

Init == dev \in {d \in SUBSET (1..N) : Cardinality(d) <= MaxDev} /\ resp \in SUBSET (1..N)
Next == UNCHANGED vars
Spec == Init /\ [][Next]_vars

\* the implementation's fold over the responding hops in TTL order
RECURSIVE Fold(_, _, _)
Fold(i, prev, acc) ==
    IF i > N THEN acc
    ELSE IF i \in resp
         THEN LET r == HS!NatStatus(100, Ck(i, dev), prev) IN Fold(i + 1, r[2], acc @@ (i :> r[1]))
         ELSE Fold(i + 1, prev, acc)
Status == Fold(1, -1, <<>>)

PrevResp(i) == IF {j \in resp : j < i} = {} THEN 0 ELSE CHOOSE j \in resp : j < i /\ \A k \in resp : k < i => k <= j
\* the property: detected exactly when the quoted checksum differs from the previous responding hop's
\* (or from the probe as sent)
Expected(i) == IF Ck(i, dev) # (IF PrevResp(i) = 0 THEN 100 ELSE Ck(PrevResp(i), dev)) THEN "yes" ELSE "no"

FoldMatchesProperty == \A i \in resp : Status[i] = Expected(i)
NoDeviceNoNat == dev = {} => \A i \in resp : Status[i] = "no"
SingleDevice == Cardinality(dev) = 1 =>
    LET k == CHOOSE x \in dev : TRUE
        first == {i \in resp : i >= k /\ \A j \in resp : j >= k => i <= j}
    IN  \A i \in resp : (Status[i] = "yes") = (i \in first)
=============================================================================
