------------------------------ MODULE TcpTable ------------------------------
(***************************************************************************)
(* The table of pending TCP connects of trippy-core's Channel               *)
(* (net/channel.rs: tcp_probes, dispatch_tcp_probe, recv_tcp_sockets).       *)
(*                                                                          *)
(* A TCP probe is a non-blocking connect; its socket is kept in a table of  *)
(* fixed capacity until one of three things happens:                        *)
(*   Take    a poll finds it writable: the connect has completed or was      *)
(*           refused - this is the response to that probe;                   *)
(*   Expire  a poll finds it older than the connect timeout;                 *)
(*   Evict   a new probe arrives while the table is full: the oldest entry   *)
(*           is given up (the repair of F11; before it the push overflowed). *)
(* A poll first expires, then takes the FIRST writable entry in table order. *)
(*                                                                          *)
(* An entry is [s |-> socket id, start |-> time of the connect,              *)
(*              ready |-> time at which the handshake answer arrives, or -1].*)
(***************************************************************************)
EXTENDS Integers, Sequences, FiniteSets

Expired(e, now, timeout) == now - e.start >= timeout
Ready(e, now)            == e.ready >= 0 /\ e.ready <= now
Live(tbl, now, timeout)  == SelectSeq(tbl, LAMBDA e : ~Expired(e, now, timeout))
Dead(tbl, now, timeout)  == {tbl[i].s : i \in {j \in 1..Len(tbl) : Expired(tbl[j], now, timeout)}}
\* index of the first writable entry, 0 if none
FirstReady(tbl, now) ==
    IF \E i \in 1..Len(tbl) : Ready(tbl[i], now)
    THEN CHOOSE i \in 1..Len(tbl) : Ready(tbl[i], now) /\ \A j \in 1..(i - 1) : ~Ready(tbl[j], now)
    ELSE 0
Without(tbl, i) == SubSeq(tbl, 1, i - 1) \o SubSeq(tbl, i + 1, Len(tbl))
Socks(tbl) == {tbl[i].s : i \in 1..Len(tbl)}

CONSTANTS Cap, Timeout, SockIds, MaxT,
          Evicts      \* FALSE: the behaviour before the repair of F11 (the push overflowed the fixed capacity)
VARIABLES table, now, closed, taken, opened
vars == <<table, now, closed, taken, opened>>

Init == table = <<>> /\ now = 0 /\ closed = {} /\ taken = {} /\ opened = {}

\* dispatch_tcp_probe: the connect is started now; the answer, if any, arrives at r
Open(s, r) ==
    /\ s \notin opened
    /\ LET e == [s |-> s, start |-> now, ready |-> r] IN
       IF Len(table) >= Cap /\ Evicts
       THEN table' = Tail(table) \o <<e>> /\ closed' = closed \cup {Head(table).s}      \* Evict
       ELSE table' = Append(table, e) /\ closed' = closed
    /\ opened' = opened \cup {s}
    /\ UNCHANGED <<now, taken>>

\* recv_tcp_sockets: expire, then take the first writable entry
Poll ==
    LET live == Live(table, now, Timeout)
        i    == FirstReady(live, now) IN
    /\ closed' = closed \cup Dead(table, now, Timeout)
    /\ IF i = 0 THEN table' = live /\ taken' = taken
       ELSE table' = Without(live, i) /\ taken' = taken \cup {[s |-> live[i].s, at |-> now, start |-> live[i].start, ready |-> live[i].ready]}
    /\ UNCHANGED <<now, opened>>

Tick == now < MaxT /\ now' = now + 1 /\ UNCHANGED <<table, closed, taken, opened>>

Next == (\E s \in SockIds, r \in {-1} \cup (now..MaxT) : Open(s, r)) \/ Poll \/ Tick
Spec == Init /\ [][Next]_vars

\* ---- what users of the channel rely on -------------------------------------------------------
Bounded      == Len(table) <= Cap
\* every socket ever opened is in exactly one place
Partition    == /\ Socks(table) \cup closed \cup {x.s : x \in taken} = opened
                /\ Socks(table) \cap closed = {} /\ closed \cap {x.s : x \in taken} = {} /\ Socks(table) \cap {x.s : x \in taken} = {}
                /\ Cardinality(Socks(table)) = Len(table)
\* a response is reported only for a connect that has been answered and is within its timeout
TakenInTime  == \A x \in taken : x.ready >= 0 /\ x.ready <= x.at /\ x.at - x.start < Timeout
\* table order is the order of the connects
Ordered      == \A i, j \in 1..Len(table) : i < j => table[i].start <= table[j].start
\* a connect is abandoned only when it has expired or the table was full
AbandonOnlyExpiredOrFull ==
    [][\A s \in closed' \ closed :
          \E i \in 1..Len(table) : table[i].s = s /\ (Expired(table[i], now, Timeout) \/ (i = 1 /\ Len(table) >= Cap))]_vars
=============================================================================
