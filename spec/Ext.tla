--------------------------------- MODULE Ext ---------------------------------
(***************************************************************************)
(* RFC 4884 multi-part ICMP messages as parsed by trippy-packet.           *)
(* Split is icmp_extension::extension_splitter::split transcribed over     *)
(* lengths: given the length attribute (in octets) and the number of octets *)
(* after the 8-octet ICMP header it returns where the original datagram and *)
(* the extension structure lie.  Objects(lens, extLen) is the object        *)
(* iterator over a sequence of object length fields.                        *)
(***************************************************************************)
EXTENDS Integers, Sequences

MinHeader == 4
OrigMin   == 128
Whole(total) == [p_len |-> total, has_ext |-> FALSE, e_off |-> -1, e_len |-> 0]

Split(length, total) ==
    IF length > total THEN Whole(total)
    ELSE IF total > OrigMin
         THEN IF length > OrigMin
              THEN (IF total - length >= MinHeader
                    THEN [p_len |-> length, has_ext |-> TRUE, e_off |-> length, e_len |-> total - length]
                    ELSE Whole(total))
              ELSE IF total - OrigMin >= MinHeader
                   THEN [p_len |-> (IF length > 0 THEN length ELSE OrigMin), has_ext |-> TRUE, e_off |-> OrigMin, e_len |-> total - OrigMin]
                   ELSE Whole(total)
         ELSE Whole(total)

\* both parts lie within the message and do not overlap
SplitSafe(length, total) ==
    LET s == Split(length, total) IN
    /\ s.p_len >= 0 /\ s.p_len <= total
    /\ s.has_ext => /\ s.e_off >= s.p_len /\ s.e_len >= MinHeader /\ s.e_off + s.e_len = total

\* a message built by an RFC 4884 compliant sender: datagram of q octets zero padded to P = a multiple of the
\* unit, at least 128; extension of e >= 4 octets; length attribute = P
Padded(q, unit) == LET r == ((q + unit - 1) \div unit) * unit IN IF r < OrigMin THEN OrigMin ELSE r
CompliantRecovered(q, unit, e) ==
    LET P == Padded(q, unit) s == Split(P, P + e) IN s.has_ext /\ s.p_len = P /\ s.e_off = P /\ s.e_len = e
\* the legacy convention: length attribute zero, datagram padded / truncated to exactly 128 octets
LegacyRecovered(e) == LET s == Split(0, OrigMin + e) IN s.has_ext /\ s.p_len = OrigMin /\ s.e_off = OrigMin /\ s.e_len = e
\* no extension and at most 128 octets quoted: everything is the datagram
PlainRecovered(q) == q <= OrigMin => Split(0, q) = Whole(q)

\* the object iterator: walk object length fields while each is >= 4 and fits; the offset strictly
\* increases, so at most extLen \div 4 objects are produced
RECURSIVE Walk(_, _, _, _)
Walk(lens, i, off, extLen) ==
    IF i > Len(lens) \/ off + 4 > extLen THEN <<>>
    ELSE IF lens[i] < 4 \/ off + lens[i] > extLen THEN <<>>
    ELSE <<lens[i]>> \o Walk(lens, i + 1, off + lens[i], extLen)
Objects(lens, extLen) == Walk(lens, 1, MinHeader, extLen)
=============================================================================
