------------------------------- MODULE Tracer -------------------------------
(***************************************************************************)
(* The probe-round state machine of trippy-core together with an           *)
(* environment (network, faults, clock) and ground-truth ghosts.           *)
(*                                                                          *)
(* Structure follows Strategy::run: one action per step of the loop        *)
(*   send phase   : SendSkip | SendProbe(out) | TcpSend(out) | TcpReissue   *)
(*   receive phase: RecvGenuine | RecvDup | RecvLate | RecvForeign |        *)
(*                  RecvForeignZero | RecvNever | RecvTimeout | RecvFatal    *)
(*   update phase : UpdateContinue | PublishAdvance                         *)
(* The tracer's own state s is transformed only through the operators of    *)
(* TracerOps (the transcription of TracerState).  Ghost variable h records  *)
(* what the ENVIRONMENT did (what was put on the wire, which response was   *)
(* the genuine first answer, when) and is never read by the tracer actions. *)
(* Time is relative to the start of the current round and restarts at       *)
(* every publication.                                                       *)
(***************************************************************************)
EXTENDS Integers, Sequences, FiniteSets, TLC

CONSTANTS BufferSize, U16Max,   \* structural constants (512 and 65535 in the code)
          Configs               \* the set of configuration records explored (see spec/mc)

(***************************************************************************)
(* A configuration record c (chosen once, in Init) has the tracer fields   *)
(*   initSeq firstTtl maxTtl maxInflight dublin6 minRound maxRound grace   *)
(*   readTimeout maxRounds traceId proto                                   *)
(* and the environment fields                                              *)
(*   dist     target distance, 0 = unreachable                             *)
(*   pathLen  routers 1..pathLen answer; beyond: silence (unless target)   *)
(*   changeAt dist2 pathLen2 (optional)  from round changeAt > 0 on the    *)
(*            route is another one: target distance dist2, routers          *)
(*            1..pathLen2 answer                                            *)
(*   sendOut  subset of {"ok","failed","fatal","inuse"}                    *)
(*   recvFaults BOOLEAN                                                    *)
(*   noise    subset of {"dup","late","foreign","zero","never"}            *)
(***************************************************************************)
Ops == INSTANCE TracerOps

VARIABLES c,        \* configuration (never changes)
          s,        \* TracerState
          pc,       \* "send" | "reissue" | "recv" | "update" | "done" | "error"
          now,      \* time since the start of the current round
          flight,   \* responses the network may still deliver
          h,        \* ground-truth ghosts
          pub,      \* the round published by the step just taken (ghost; NoPub after any other step)
          act       \* name of the last action (ghost)
vars == <<c, s, pc, now, flight, h, pub, act>>

Tick == IF c.readTimeout = 0 THEN 1 ELSE c.readTimeout
\* the route in force in round rn (a response belongs to the route of the round its probe was sent in)
HasChange     == "changeAt" \in DOMAIN c /\ c.changeAt > 0
Changed(rn)   == HasChange /\ rn >= c.changeAt
DistR(rn)     == IF Changed(rn) THEN c.dist2 ELSE c.dist
PathLenR(rn)  == IF Changed(rn) THEN c.pathLen2 ELSE c.pathLen
IsTargetR(rn, t) == DistR(rn) > 0 /\ t >= DistR(rn)
HostR(rn, t)  == IF IsTargetR(rn, t) THEN 1000 ELSE (IF Changed(rn) THEN 100 + t ELSE t)
IsTarget(t) == IsTargetR(s.round, t)
Answers(t)  == IsTarget(t) \/ t <= PathLenR(s.round)
Host(t)     == HostR(s.round, t)

NoPub == [valid |-> FALSE]
H0 == [ wire |-> <<>>, ans |-> {}, farthest |-> 0, tgt |-> FALSE, lastRecv |-> -1,
        pubs |-> 0, est |-> 0, estD |-> FALSE, everAns |-> FALSE,
        prevLo |-> 0, prevHi |-> 0, fatal |-> FALSE, capacity |-> FALSE ]

C == [c EXCEPT !.bufferSize = BufferSize, !.u16Max = U16Max]

Init == /\ c \in Configs
        /\ s = Ops!Init([c EXCEPT !.bufferSize = BufferSize, !.u16Max = U16Max], 0)
        /\ pc = "send"
        /\ now = 0
        /\ flight = {}
        /\ h = H0
        /\ pub = NoPub
        /\ act = "init"

(***************************************************************************)
(* Send phase                                                               *)
(***************************************************************************)
WireEntry(q, t, out, re) ==
    [ seq |-> q, ttl |-> t, out |-> out, reissue |-> re,
      afterTgt |-> h.tgt, farthest |-> h.farthest, est |-> h.est ]

Launch(q, t) == IF Answers(t) THEN {[seq |-> q, ttl |-> t, round |-> s.round, delivered |-> FALSE]} ELSE {}

AfterSend(s1, q, t, out, re) ==
    /\ h' = [h EXCEPT !.wire = Append(@, WireEntry(q, t, out, re)), !.fatal = @ \/ out = "fatal"]
    /\ CASE out = "ok"     -> s' = s1 /\ flight' = flight \cup Launch(q, t) /\ pc' = "recv"
         [] out = "failed" -> s' = Ops!FailProbe(C, s1) /\ flight' = flight /\ pc' = "recv"
         [] out = "fatal"  -> s' = s1 /\ flight' = flight /\ pc' = "error"
         [] out = "inuse"  -> s' = s1 /\ flight' = flight /\ pc' = "reissue"
    /\ now' = now /\ c' = c

SendSkip == /\ pc = "send" /\ ~Ops!ShouldSend(C, s)
            /\ pc' = "recv" /\ act' = "SendSkip"
            /\ UNCHANGED <<c, s, now, flight, h>>

SendProbe(out) ==
    /\ pc = "send" /\ c.proto # "tcp" /\ Ops!ShouldSend(C, s)
    /\ out \in c.sendOut \ {"inuse"}
    /\ AfterSend(Ops!NextProbe(C, s, 0), s.seq, s.ttl, out, FALSE)
    /\ act' = "SendProbe"

CapacityError == /\ h' = [h EXCEPT !.capacity = TRUE] /\ pc' = "error"
                 /\ UNCHANGED <<c, s, now, flight>>

TcpSend(out) ==
    /\ pc = "send" /\ c.proto = "tcp" /\ Ops!ShouldSend(C, s) /\ out \in c.sendOut
    /\ IF Ops!HasCapacity(C, s)
       THEN AfterSend(Ops!NextProbe(C, s, 0), s.seq, s.ttl, out, FALSE)
       ELSE CapacityError
    /\ act' = "TcpSend"

TcpReissue(out) ==
    /\ pc = "reissue" /\ out \in c.sendOut
    /\ IF Ops!HasCapacity(C, s)
       THEN AfterSend(Ops!ReissueProbe(C, s, 0), s.seq, s.ttl - 1, out, TRUE)
       ELSE CapacityError
    /\ act' = "TcpReissue"

(***************************************************************************)
(* Receive phase                                                            *)
(***************************************************************************)
Delays == 0..Tick
NoiseDelays == 1..Tick     \* injected packets cost time, otherwise a flood could freeze the clock

RecvGenuine(r, d) ==
    /\ pc = "recv" /\ r \in flight /\ r.round = s.round /\ ~r.delivered /\ d \in Delays
    /\ now' = now + d
    /\ s' = Ops!RecvResponse(C, s, IF c.proto = "icmp" THEN c.traceId ELSE 0, r.seq, HostR(r.round, r.ttl), IsTargetR(r.round, r.ttl), now')
    /\ flight' = (flight \ {r}) \cup (IF "dup" \in c.noise THEN {[r EXCEPT !.delivered = TRUE]} ELSE {})
    /\ h' = [h EXCEPT !.ans = @ \cup {[seq |-> r.seq, ttl |-> r.ttl, host |-> Host(r.ttl), at |-> now']},
                      !.farthest = IF r.ttl > @ THEN r.ttl ELSE @,
                      !.tgt = @ \/ IsTarget(r.ttl),
                      !.lastRecv = now',
                      !.everAns = TRUE]
    /\ pc' = "update" /\ act' = "RecvGenuine" /\ c' = c

RecvDup(r, d) ==
    /\ pc = "recv" /\ "dup" \in c.noise /\ r \in flight /\ r.round = s.round /\ r.delivered /\ d \in Delays
    /\ now' = now + d
    /\ s' = Ops!RecvResponse(C, s, IF c.proto = "icmp" THEN c.traceId ELSE 0, r.seq, HostR(r.round, r.ttl), IsTargetR(r.round, r.ttl), now')
    /\ flight' = flight \ {r}
    /\ pc' = "update" /\ act' = "RecvDup" /\ UNCHANGED <<c, h>>

RecvLate(r, d) ==
    /\ pc = "recv" /\ "late" \in c.noise /\ r \in flight /\ r.round < s.round /\ d \in Delays
    /\ now' = now + d
    /\ s' = Ops!RecvResponse(C, s, IF c.proto = "icmp" THEN c.traceId ELSE 0, r.seq, HostR(r.round, r.ttl), IsTargetR(r.round, r.ttl), now')
    /\ flight' = flight \ {r}
    /\ pc' = "update" /\ act' = "RecvLate" /\ UNCHANGED <<c, h>>

\* another tracer's response (its identifier is neither ours nor zero), any sequence in our window
RecvForeign(q, d) ==
    /\ pc = "recv" /\ "foreign" \in c.noise /\ c.proto = "icmp" /\ d \in NoiseDelays
    /\ q \in s.rseq..(s.rseq + BufferSize - 1)
    /\ now' = now + d
    /\ s' = Ops!RecvResponse(C, s, c.traceId + 1, q, 777, FALSE, now')
    /\ pc' = "update" /\ act' = "RecvForeign" /\ UNCHANGED <<c, flight, h>>

\* F7: a foreign ICMP response carrying identifier zero
RecvForeignZero(q, d) ==
    /\ pc = "recv" /\ "zero" \in c.noise /\ c.proto = "icmp" /\ d \in NoiseDelays
    /\ q \in s.rseq..(s.rseq + BufferSize - 1)
    /\ now' = now + d
    /\ s' = Ops!RecvResponse(C, s, 0, q, 777, FALSE, now')
    /\ pc' = "update" /\ act' = "RecvForeignZero" /\ UNCHANGED <<c, flight, h>>

\* our identifier, but a sequence number that was not sent in this round
RecvNever(q, d) ==
    /\ pc = "recv" /\ "never" \in c.noise /\ d \in NoiseDelays
    /\ q \in s.seq..(s.rseq + BufferSize - 1)
    /\ now' = now + d
    /\ s' = Ops!RecvResponse(C, s, IF c.proto = "icmp" THEN c.traceId ELSE 0, q, 777, FALSE, now')
    /\ pc' = "update" /\ act' = "RecvNever" /\ UNCHANGED <<c, flight, h>>

RecvTimeout ==
    /\ pc = "recv"
    /\ now' = now + Tick
    /\ pc' = "update" /\ act' = "RecvTimeout" /\ UNCHANGED <<c, s, flight, h>>

RecvFatal ==
    /\ pc = "recv" /\ c.recvFaults
    /\ pc' = "error" /\ act' = "RecvFatal"
    /\ h' = [h EXCEPT !.fatal = TRUE]
    /\ UNCHANGED <<c, s, now, flight>>

(***************************************************************************)
(* Update phase                                                             *)
(***************************************************************************)
UpdateContinue ==
    /\ pc = "update" /\ ~Ops!RoundComplete(C, s, now)
    /\ pc' = "send" /\ act' = "UpdateContinue"
    /\ UNCHANGED <<c, s, now, flight, h>>

TgtAns(hh) == {a \in hh.ans : IsTarget(a.ttl)}
MinTtl(S) == CHOOSE x \in {a.ttl : a \in S} : \A y \in {a.ttl : a \in S} : x <= y

PublishAdvance ==
    /\ pc = "update" /\ Ops!RoundComplete(C, s, now)
    /\ LET s1 == Ops!AdvanceRound(C, s, 0)
           p1 == [ valid |-> TRUE, idx |-> h.pubs, round |-> s.round, probes |-> Ops!Probes(s),
                    largest |-> Ops!LargestTtl(C, s), reason |-> Ops!Reason(s), at |-> now,
                    wire |-> h.wire, ans |-> h.ans, tgt |-> h.tgt, lastRecv |-> h.lastRecv,
                    estD |-> (h.estD \/ \E a \in h.ans : a.ttl = DistR(s.round) /\ DistR(s.round) > 0),
                    everAns |-> h.everAns ]
       IN /\ s' = s1
          /\ pub' = p1
          /\ h' = [h EXCEPT !.pubs = @ + 1, !.wire = <<>>, !.ans = {}, !.farthest = 0,
                            !.tgt = FALSE, !.lastRecv = -1,
                            !.est = IF TgtAns(h) = {} THEN @
                                    ELSE IF @ = 0 THEN MinTtl(TgtAns(h))
                                    ELSE IF MinTtl(TgtAns(h)) < @ THEN MinTtl(TgtAns(h)) ELSE @,
                            !.estD = p1.estD,
                            !.prevLo = s.rseq, !.prevHi = s.seq]
          /\ flight' = {r \in flight : r.round = s.round /\ "late" \in c.noise}
          /\ pc' = IF Ops!Finished(C, s1) THEN "done" ELSE "send"
    /\ now' = 0 /\ c' = c
    /\ act' = "PublishAdvance"

\* every action other than PublishAdvance clears the publication ghost
NP == pub' = NoPub
ASendSkip        == SendSkip /\ NP
ASendProbe       == (\E out \in c.sendOut : SendProbe(out)) /\ NP
ATcpSend         == (\E out \in c.sendOut : TcpSend(out)) /\ NP
ATcpReissue      == (\E out \in c.sendOut : TcpReissue(out)) /\ NP
ARecvGenuine     == (\E r \in flight, d \in Delays : RecvGenuine(r, d)) /\ NP
ARecvDup         == (\E r \in flight, d \in Delays : RecvDup(r, d)) /\ NP
ARecvLate        == (\E r \in flight, d \in Delays : RecvLate(r, d)) /\ NP
ARecvForeign     == (\E q \in c.initSeq..U16Max, d \in NoiseDelays : RecvForeign(q, d)) /\ NP
ARecvForeignZero == (\E q \in c.initSeq..U16Max, d \in NoiseDelays : RecvForeignZero(q, d)) /\ NP
ARecvNever       == (\E q \in c.initSeq..U16Max, d \in NoiseDelays : RecvNever(q, d)) /\ NP
ARecvTimeout     == RecvTimeout /\ NP
ARecvFatal       == RecvFatal /\ NP
AUpdateContinue  == UpdateContinue /\ NP

Next == \/ ASendSkip \/ ASendProbe \/ ATcpSend \/ ATcpReissue
        \/ ARecvGenuine \/ ARecvDup \/ ARecvLate \/ ARecvForeign \/ ARecvForeignZero \/ ARecvNever
        \/ ARecvTimeout \/ ARecvFatal
        \/ AUpdateContinue \/ PublishAdvance

Spec == Init /\ [][Next]_vars /\ WF_vars(Next)

(***************************************************************************)
(* Properties                                                               *)
(***************************************************************************)
Slots == {"N", "S", "F", "A", "C"}
TypeOK == /\ pc \in {"send", "reissue", "recv", "update", "done", "error"}
          /\ s.seq \in 0..U16Max /\ s.rseq \in 0..U16Max
          /\ \A i \in DOMAIN s.buf : s.buf[i].st \in Slots

\* ---- C07 (on the full model; the dedicated arithmetic model is SeqAlloc) ----------------
SeqBound == s.seq < U16Max /\ s.seq - s.rseq <= BufferSize /\ s.seq >= s.rseq

\* ---- C06 ----------------------------------------------------------------------------------
NonReissuedBefore(w, i) == Cardinality({j \in 1..(i - 1) : ~w[j].reissue})
TtlOrder == \A i \in 1..Len(h.wire) :
              IF h.wire[i].reissue THEN i > 1 /\ h.wire[i].ttl = h.wire[i - 1].ttl
              ELSE h.wire[i].ttl = c.firstTtl + NonReissuedBefore(h.wire, i)
TtlLimit == \A i \in 1..Len(h.wire) : h.wire[i].ttl <= c.maxTtl
NoSendAfterTarget == \A i \in 1..Len(h.wire) : ~h.wire[i].afterTgt
NotBeyondEstablished == \A i \in 1..Len(h.wire) : h.wire[i].est > 0 => h.wire[i].ttl <= h.wire[i].est
Window == \A i \in 1..Len(h.wire) :
            LET w == h.wire[i]
                base == IF w.farthest > c.firstTtl - 1 THEN w.farthest ELSE c.firstTtl - 1
            IN  w.est = 0 => w.ttl - base <= c.maxInflight
RoundNonEmpty == pub.valid => Len(pub.wire) >= 1

\* ---- C01 ----------------------------------------------------------------------------------
AnsOf(pb, q) == {a \in pb.ans : a.seq = q}
SlotOK(pb, i) ==
    LET w == pb.wire[i] pr == pb.probes[i - 1] IN
    CASE w.out = "inuse"  -> pr.st = "S"
      [] w.out = "failed" -> pr.st = "F" /\ pr.seq = w.seq /\ pr.ttl = w.ttl
      [] w.out = "ok" ->
            IF AnsOf(pb, w.seq) # {}
            THEN \E a \in AnsOf(pb, w.seq) :
                    pr.st = "C" /\ pr.seq = w.seq /\ pr.ttl = w.ttl /\ pr.host = a.host /\ pr.recv = a.at
            ELSE pr.st = "A" /\ pr.seq = w.seq /\ pr.ttl = w.ttl
      [] OTHER -> FALSE
PublishedMatchesTruth ==
    pub.valid =>
      /\ DOMAIN pub.probes = 0..(Len(pub.wire) - 1)
      /\ \A i \in 1..Len(pub.wire) : SlotOK(pub, i)
      /\ \A i \in DOMAIN pub.probes :
            pub.probes[i].st \in {"A", "C", "F"} => pub.probes[i].round = pub.round

\* ---- C03 ----------------------------------------------------------------------------------
NoiseActs == {"RecvDup", "RecvLate", "RecvForeign", "RecvForeignZero", "RecvNever"}
NoiseIsNoOp == [][act' \in NoiseActs => s' = s]_vars
BookkeepingGenuine ==
    /\ s.tf = h.tgt
    /\ s.mrt = h.farthest
    /\ s.rt = h.lastRecv

\* ---- C08 ----------------------------------------------------------------------------------
PubAllowed(pb) ==
    \/ pb.at > c.maxRound
    \/ pb.tgt /\ pb.at > c.minRound /\ pb.lastRecv >= 0 /\ pb.at - pb.lastRecv > c.grace
PublishOnlyWhenAllowed == pub.valid => PubAllowed(pub)
ReasonConsistent == pub.valid =>
    /\ pub.reason = "tf" => pub.tgt
    /\ ~pub.tgt => pub.reason = "tl"
    /\ (pub.reason = "tl" /\ pub.tgt) => pub.at > c.maxRound
HeldOpenBound == now <= c.maxRound + Tick
NextRoundStartsAtPublish == [][act' = "PublishAdvance" => now' = 0 /\ s'.rs = 0]_vars

\* ---- C09 ----------------------------------------------------------------------------------
ExactlyNRounds == (pc = "done") => h.pubs = c.maxRounds
PubNumbering   == pub.valid => pub.idx = pub.round /\ pub.idx = h.pubs - 1
NeverTooMany   == h.pubs <= c.maxRounds
ErrorOnlyAfterFatal == (pc = "error") => h.fatal \/ h.capacity
FatalEnds == [][pc = "error" => pc' = "error"]_vars
Terminates == <>(pc \in {"done", "error"})

\* ---- C10 (the output contract of publish_trace: RoundWellFormed) --------------------------
ProbedTtls(pb) == {pb.probes[i].ttl : i \in {j \in DOMAIN pb.probes : pb.probes[j].st \in {"A", "C", "F"}}}
RoundWellFormed == pub.valid =>
    /\ pub.largest >= 0 /\ pub.largest <= c.maxTtl
    /\ \A t \in ProbedTtls(pub) : t >= c.firstTtl /\ t <= c.maxTtl
    /\ pub.largest > 0 => pub.largest >= c.firstTtl
StablePathLength == pub.valid /\ ~HasChange /\ pub.estD => pub.largest = c.dist
\* a round in which the target answered at its true distance reports that distance - also right after the route
\* changed to a longer or a shorter one
TargetDistanceReported ==
    pub.valid /\ DistR(pub.round) > 0 /\ (\E a \in pub.ans : a.ttl = DistR(pub.round)) => pub.largest = DistR(pub.round)
\* the distance the tracer holds to be established is never at or below a hop that answered as a router in this
\* round: that is what lets probing continue beyond a stale distance after the path has grown
EstablishedBeyondRouters ==
    s.tt # 0 => \A a \in h.ans : IsTarget(a.ttl) \/ a.ttl < s.tt
NothingAnswered  == pub.valid /\ ~pub.everAns => pub.largest = 0
=============================================================================
