--------------------------------- MODULE Tui ---------------------------------
(***************************************************************************)
(* The selection state of the terminal UI (trippy-tui: frontend.rs run_app *)
(* and tui_app.rs) over trace data that changes asynchronously.            *)
(*                                                                          *)
(* Loop, as in run_app: Tick (unless frozen: snapshot the selected trace,   *)
(* clamp the selected hop, re-order the flow counts) -> Draw -> at most one *)
(* key -> Tick ...   Trace data changes at any point (the tracer threads):  *)
(* NewRound may lengthen a flow's hop list, give a hop its first or another *)
(* address, or create a flow.  Draw's precondition DrawOK IS the property   *)
(* (C17): every index the renderers use refers to an existing entry of the  *)
(* data being displayed.  Commands are transcribed with the guards of the   *)
(* implementation (as repaired, see known_findings.jsonl F12 / F20 / F21 / F22 / F25).        *)
(* Privacy (C18): expand / contract move the level one step within          *)
(* off (-1), 0 .. hop count.                                                *)
(***************************************************************************)
EXTENDS Integers, FiniteSets, TLC

CONSTANTS NTraces, MaxHops, MaxFlows, MaxAddrs

Traces == 0..(NTraces - 1)
Flows  == 1..MaxFlows
\* the data of one trace: hop count per flow (flow 0 = default, always present), the registered flows, and
\* the number of addresses of each hop position of the default flow
Empty == [hops |-> [f \in {0} |-> 0], flows |-> {}, addrs |-> [i \in 0..(MaxHops - 1) |-> 0]]

VARIABLES data, view, sel, selFlow, selAddr, traceSel, showFlows, frozen, privacy, flowCounts, pc
vars == <<data, view, sel, selFlow, selAddr, traceSel, showFlows, frozen, privacy, flowCounts, pc>>

HopCount(d, f) == IF f \in DOMAIN d.hops THEN d.hops[f] ELSE -1     \* -1: the flow does not exist (a crash)

Init == /\ data = [t \in Traces |-> Empty] /\ view = Empty
        /\ sel = -1 /\ selFlow = 0 /\ selAddr = 0 /\ traceSel = 0 /\ showFlows = FALSE /\ frozen = FALSE
        /\ privacy \in {-1, 0, 1} /\ flowCounts = {} /\ pc = "tick"

(***************************************************************************)
(* Trace data changes (any time, any trace)                                 *)
(***************************************************************************)
\* the records after a round of flow f that reaches one hop further / after a round that registers a new flow
GrowOK(d, f) == f \in d.flows /\ d.hops[f] < MaxHops         \* every round is attributed to a registered flow
GrowRec(d, f) == LET n == d.hops[f] + 1 IN
                 [d EXCEPT !.hops = [x \in DOMAIN @ |-> IF x = f THEN n
                                                         ELSE IF x = 0 /\ @[0] < n THEN n   \* the default flow covers every flow
                                                         ELSE @[x]]]
FlowOK(d) == Cardinality(d.flows) < MaxFlows
\* a new flow is registered by a round whose first hop (at least) answers from a new address
FlowRec(d) == LET f == Cardinality(d.flows) + 1 IN
              [d EXCEPT !.flows = @ \cup {f},
                        !.hops = [x \in (DOMAIN @) \cup {f} |-> IF x = f THEN 1 ELSE IF x = 0 /\ @[0] < 1 THEN 1 ELSE @[x]]]
GrowF(t, f) == GrowOK(data[t], f) /\ data' = [data EXCEPT ![t] = GrowRec(@, f)]
Grow(t) == \E f \in {0} \cup Flows : GrowF(t, f)
NewFlow(t) == FlowOK(data[t]) /\ data' = [data EXCEPT ![t] = FlowRec(@)]
NewAddrI(t, i) ==
              /\ data[t].addrs[i] < MaxAddrs
              /\ data' = [data EXCEPT ![t].addrs[i] = @ + 1]
NewAddr(t) == \E i \in 0..(MaxHops - 1) : NewAddrI(t, i)
DataUnch == UNCHANGED <<view, sel, selFlow, selAddr, traceSel, showFlows, frozen, privacy, flowCounts, pc>>
DataStep == /\ \E t \in Traces : Grow(t) \/ NewFlow(t) \/ NewAddr(t)
            /\ DataUnch

(***************************************************************************)
(* The loop                                                                 *)
(***************************************************************************)
Clamp(hc) == IF sel = -1 THEN -1 ELSE IF hc <= 0 THEN -1 ELSE IF sel > hc - 1 THEN hc - 1 ELSE sel
\* the top of the loop: unless frozen snapshot the selected trace and re-order the flow counts; then
\* clamp_selected_hop, on every iteration, against the displayed data (as repaired, F21)
TickView == IF frozen THEN view ELSE data[traceSel]
TickFC   == IF frozen THEN flowCounts ELSE data[traceSel].flows
TickSel  == Clamp(HopCount(TickView, selFlow))
Tick == /\ pc = "tick"
        /\ view' = TickView /\ flowCounts' = TickFC /\ sel' = TickSel
        /\ pc' = "draw"
        /\ UNCHANGED <<data, selFlow, selAddr, traceSel, showFlows, frozen, privacy>>

Draw == /\ pc = "draw" /\ pc' = "key"
        /\ UNCHANGED <<data, view, sel, selFlow, selAddr, traceSel, showFlows, frozen, privacy, flowCounts>>

NoKey == /\ pc = "key" /\ pc' = "tick"
         /\ UNCHANGED <<data, view, sel, selFlow, selAddr, traceSel, showFlows, frozen, privacy, flowCounts>>

HC == HopCount(view, selFlow)
\* addresses of the selected hop: only the default flow aggregates several addresses per hop; a hop of a
\* registered flow has exactly the one address that defines the flow at that position
AddrsOfSel == IF sel >= 0 /\ sel < MaxHops THEN (IF selFlow = 0 THEN view.addrs[sel] ELSE 1) ELSE 0

Key(newSel, newFlow, newAddr, newTrace, newShow, newFrozen, newPriv, newData) ==
    /\ pc = "key" /\ pc' = "tick"
    /\ sel' = newSel /\ selFlow' = newFlow /\ selAddr' = newAddr /\ traceSel' = newTrace
    /\ showFlows' = newShow /\ frozen' = newFrozen /\ privacy' = newPriv /\ data' = newData
    /\ UNCHANGED <<view, flowCounts>>

NextHop == HC > 0 /\ Key(IF sel = -1 THEN 0 ELSE IF sel < HC - 1 THEN sel + 1 ELSE sel, selFlow, 0, traceSel, showFlows, frozen, privacy, data)
PrevHop == HC > 0 /\ Key(IF sel = -1 THEN HC - 1 ELSE IF sel > 0 THEN sel - 1 ELSE sel, selFlow, 0, traceSel, showFlows, frozen, privacy, data)
\* next_trace / previous_trace (as repaired, F25): the displayed snapshot and the flow counts are refreshed for the
\* newly selected trace, also while frozen (the frozen snapshot belongs to another trace)
SwitchTrace(t) == /\ pc = "key" /\ pc' = "tick"
                  /\ sel' = -1 /\ selAddr' = 0 /\ traceSel' = t
                  /\ view' = data[t] /\ flowCounts' = data[t].flows
                  /\ UNCHANGED <<data, selFlow, showFlows, frozen, privacy>>
NextTrace == ~showFlows /\ NTraces > 1 /\ traceSel < NTraces - 1 /\ SwitchTrace(traceSel + 1)
PrevTrace == ~showFlows /\ NTraces > 1 /\ traceSel > 0 /\ SwitchTrace(traceSel - 1)
\* next_flow / previous_flow: find_position(...).unwrap() needs the selected flow among the flow counts
\* the flow counts are ordered by the number of rounds of each flow, which this model does not track: the
\* neighbour of the selected flow in that order is some flow of the flow counts
NextFlow == showFlows /\ selFlow \in flowCounts /\ \E g \in flowCounts : Key(sel, g, selAddr, traceSel, showFlows, frozen, privacy, data)
PrevFlow == showFlows /\ selFlow \in flowCounts /\ \E g \in flowCounts : Key(sel, g, selAddr, traceSel, showFlows, frozen, privacy, data)
FlowKeyCrash == pc = "key" /\ showFlows /\ selFlow \notin flowCounts
NextAddr == sel >= 0 /\ Key(sel, selFlow, IF selAddr + 1 < AddrsOfSel THEN selAddr + 1 ELSE selAddr, traceSel, showFlows, frozen, privacy, data)
PrevAddr == sel >= 0 /\ Key(sel, selFlow, IF selAddr > 0 THEN selAddr - 1 ELSE selAddr, traceSel, showFlows, frozen, privacy, data)
ToggleFreeze == Key(sel, selFlow, selAddr, traceSel, showFlows, ~frozen, privacy, data)
ToggleFlows == /\ NTraces = 1 /\ MaxFlows > 1
               /\ IF showFlows THEN Key(sel, 0, 0, traceSel, FALSE, frozen, privacy, data)
                  ELSE view.flows # {} /\ Key(sel, 1, 0, traceSel, TRUE, frozen, privacy, data)
\* clear_trace_data: clears the selection, the data of the selected trace, and (as repaired) the flow selection
\* and (as repaired, F22) refreshes the displayed snapshot and the flow counts, also while frozen
ClearTrace == /\ pc = "key" /\ pc' = "tick"
              /\ sel' = -1 /\ selFlow' = 0 /\ selAddr' = 0 /\ showFlows' = FALSE
              /\ data' = [data EXCEPT ![traceSel] = Empty]
              /\ view' = Empty /\ flowCounts' = {}
              /\ UNCHANGED <<traceSel, frozen, privacy>>
ClearSel == Key(-1, selFlow, 0, traceSel, showFlows, frozen, privacy, data)
ExpandPrivacy == Key(sel, selFlow, selAddr, traceSel, showFlows, frozen,
                     IF privacy = -1 THEN 0 ELSE IF privacy < HC THEN privacy + 1 ELSE privacy, data)
ContractPrivacy == Key(sel, selFlow, selAddr, traceSel, showFlows, frozen, IF privacy > 0 THEN privacy - 1 ELSE -1, data)

Next == DataStep \/ Tick \/ Draw \/ NoKey \/ NextHop \/ PrevHop \/ NextTrace \/ PrevTrace \/ NextFlow \/ PrevFlow
        \/ NextAddr \/ PrevAddr \/ ToggleFreeze \/ ToggleFlows \/ ClearTrace \/ ClearSel \/ ExpandPrivacy \/ ContractPrivacy
Spec == Init /\ [][Next]_vars

(***************************************************************************)
(* Properties                                                               *)
(***************************************************************************)
\* C17: whenever a frame is drawn every index refers to an existing entry of the displayed data
DrawOK == pc = "draw" =>
    /\ HopCount(view, selFlow) >= 0                         \* the selected flow exists in the displayed state
    /\ sel = -1 \/ sel < HopCount(view, selFlow)
    /\ showFlows => selFlow \in flowCounts
    /\ sel >= 0 => selAddr < (IF AddrsOfSel = 0 THEN 1 ELSE AddrsOfSel)
    /\ traceSel \in Traces
\* no command handler hits the unwrap of next_flow / previous_flow
NoFlowKeyCrash == ~FlowKeyCrash
\* C18: privacy stays within off, 0 .. max hops, and moves one step at a time
PrivacyRange == privacy >= -1 /\ privacy <= MaxHops
PrivacyStep == [][privacy' \in {privacy - 1, privacy, privacy + 1}]_vars
=============================================================================
