-------------------------------- MODULE Wire --------------------------------
(***************************************************************************)
(* Where a probe's identity lives on the wire.                              *)
(*                                                                          *)
(* The two match tables of the implementation, written once each:           *)
(*   Encode  - TracerState::probe_*_data + net/ipv4.rs, net/ipv6.rs         *)
(*             dispatch_*: which header field carries the sequence, the     *)
(*             ports of the round, the identifier, the sizes                *)
(*   Decode  - ProtocolStrategyResponse::from: which quoted field the       *)
(*             sequence is recovered from; Validate - Strategy::validate    *)
(* over the configuration cells protocol x family x strategy x port         *)
(* direction (x privilege).  Quote models what routers do to a datagram     *)
(* before quoting it.  A configuration record c has:                        *)
(*   proto fam strat ports sport dport priv init_seq trace_id psize pattern *)
(*   tos                                                                    *)
(* A probe p: [seq, ttl, round].  A header record h (abstract datagram):    *)
(*   [proto, ttl, tos, ipid, sport, dport, udplen, udpsum, icmpid, icmpseq, *)
(*    paylen, magic, dst, total]                                            *)
(***************************************************************************)
EXTENDS Integers, FiniteSets

IpHdr(c) == IF c.fam = 4 THEN 20 ELSE 40

\* the builder-accepted cells in which Encode is defined (the unimplemented!() arms are outside)
Supported(c) ==
    \/ c.proto = "icmp" /\ c.strat = "classic" /\ c.ports = "none"
    \/ c.proto = "udp" /\ c.strat = "classic" /\ c.ports \in {"src", "dest"}
    \/ c.proto = "udp" /\ c.strat \in {"paris", "dublin"} /\ c.ports \in {"src", "dest", "both"} /\ c.priv
    \/ c.proto = "tcp" /\ c.strat = "classic" /\ c.ports \in {"src", "dest"}

RoundPort(c, p) == (c.init_seq + p.round) % 65535

\* source and destination port of the probe
Ports(c, p) ==
    CASE c.proto = "icmp" -> <<0, 0>>
      [] c.strat = "classic" /\ c.ports = "src"  -> <<c.sport, p.seq>>
      [] c.strat = "classic" /\ c.ports = "dest" -> <<p.seq, c.dport>>
      [] c.ports = "src"  -> <<c.sport, RoundPort(c, p)>>
      [] c.ports = "dest" -> <<RoundPort(c, p), c.dport>>
      [] OTHER -> <<c.sport, c.dport>>

Encode(c, p) ==
    LET pt == Ports(c, p)
        paylen == CASE c.proto = "icmp" -> c.psize - IpHdr(c) - 8
                    [] c.proto = "tcp" -> 0
                    [] c.strat = "paris" -> 2
                    [] c.strat = "dublin" /\ c.fam = 6 -> (p.seq - c.init_seq) + 6
                    [] OTHER -> c.psize - IpHdr(c) - 8
    IN  [ proto |-> c.proto, ttl |-> p.ttl, tos |-> IF c.fam = 4 THEN c.tos ELSE 0,
          ipid |-> IF c.proto = "udp" /\ c.strat = "dublin" /\ c.fam = 4 THEN p.seq ELSE 0,
          sport |-> pt[1], dport |-> pt[2],
          udplen |-> IF c.proto = "udp" THEN 8 + paylen ELSE 0,
          udpsum |-> IF c.proto = "udp" /\ c.strat = "paris" THEN p.seq ELSE -1,   \* -1: the RFC 1071 value
          icmpid |-> IF c.proto = "icmp" THEN c.trace_id ELSE 0,
          icmpseq |-> IF c.proto = "icmp" THEN p.seq ELSE 0,
          paylen |-> paylen,
          magic |-> c.proto = "udp" /\ c.strat = "dublin" /\ c.fam = 6,
          dst |-> "target",
          total |-> IF c.proto = "tcp" THEN -1 ELSE IpHdr(c) + 8 + paylen ]

\* in-transit changes and quotation: TTL becomes 1, TOS may be rewritten, only the first 8 octets of the
\* transport header may be quoted (which still hold ports / length / checksum / id / seq), NAT may rewrite
\* the UDP checksum (which is the carrier for Paris only)
Variations == {"plain", "tos", "min8", "ext"}
Quote(h, v) == [h EXCEPT !.ttl = 1, !.tos = IF v = "tos" THEN (@ + 1) % 256 ELSE @]

\* ProtocolStrategyResponse::from
Decode(c, q) ==
    CASE c.proto = "icmp" -> q.icmpseq
      [] c.proto = "tcp" -> IF c.ports = "src" THEN q.dport ELSE q.sport
      [] c.strat = "classic" -> IF c.ports = "dest" THEN q.sport ELSE q.dport
      [] c.strat = "paris" -> q.udpsum
      [] c.fam = 4 -> q.ipid
      [] OTHER -> c.init_seq + (q.udplen - 8 - (IF q.magic THEN 6 ELSE 0))

TraceIdOf(c, q) == IF c.proto = "icmp" THEN q.icmpid ELSE 0

\* Strategy::validate
ValidatePorts(c, q) ==
    CASE c.ports = "src"  -> q.sport = c.sport
      [] c.ports = "dest" -> q.dport = c.dport
      [] c.ports = "both" -> q.sport = c.sport /\ q.dport = c.dport
      [] OTHER -> FALSE
Validate(c, q) ==
    CASE c.proto = "icmp" -> q.proto = "icmp"
      [] c.proto = "udp" -> q.proto = "udp" /\ q.dst = "target" /\ ValidatePorts(c, q)
                            /\ (c.strat = "dublin" /\ c.fam = 6 => q.magic)
      [] OTHER -> q.proto = "tcp" /\ q.dst = "target" /\ ValidatePorts(c, q)
Accepts(c, q) == Validate(c, q) /\ (TraceIdOf(c, q) = c.trace_id \/ TraceIdOf(c, q) = 0)

\* datagrams this tracer did not send
Foreign(c, h) ==
    (IF c.proto # "icmp" THEN {[h EXCEPT !.dst = "other"]} ELSE {})
    \cup (IF c.ports \in {"src", "both"} THEN {[h EXCEPT !.sport = (@ + 1) % 65536]} ELSE {})
    \cup (IF c.ports \in {"dest", "both"} THEN {[h EXCEPT !.dport = (@ + 1) % 65536]} ELSE {})
    \cup {[h EXCEPT !.proto = IF @ = "udp" THEN "tcp" ELSE "udp"]}
    \cup (IF h.magic THEN {[h EXCEPT !.magic = FALSE]} ELSE {})
    \cup (IF c.proto = "icmp" THEN {[h EXCEPT !.icmpid = IF c.trace_id = 65535 THEN 1 ELSE c.trace_id + 1]} ELSE {})
=============================================================================
