-------------------------------- MODULE Report --------------------------------
(***************************************************************************)
(* The report modes of trippy (trippy-tui report/{json,csv,table,flows,dot}) *)
(* as functions of the State snapshot they are generated from: one row per  *)
(* hop of the default flow, in ttl order, carrying the hop's counters       *)
(* exactly and its round-trip statistics rounded to the mode's number of    *)
(* decimals; a value the hop does not have (no response yet) is the mode's  *)
(* placeholder; the flows report lists the flow registry.                   *)
(*                                                                          *)
(* Values of the state are integers in thousandths of a millisecond (or -1  *)
(* for "none"); values of a report are the integer scaled by 10^decimals    *)
(* (or -1 for the placeholder).                                             *)
(***************************************************************************)
EXTENDS Integers, Sequences

Abs(x) == IF x < 0 THEN -x ELSE x
Pow10(d) == IF d = 1 THEN 10 ELSE IF d = 2 THEN 100 ELSE 1
\* `shown` (scaled by 10^d) is `st` (thousandths) rounded to d decimals (half a unit of the last place, plus the
\* harness's own rounding of the state value to thousandths)
Rounded(shown, st, d) == Abs(shown * (1000 \div Pow10(d)) - st) * 2 <= (1000 \div Pow10(d)) + 2

\* decimals per column and whether a missing value is printed as the placeholder (-1) or as zero
Modes == {"json", "csv", "markdown"}
Dec(mode, col) == CASE mode = "json" -> 2
                    [] mode = "markdown" -> 1
                    [] mode = "csv" -> IF col \in {"loss", "avg", "sd"} THEN 2 ELSE 1
MissingIsZero(mode) == mode = "json"

Opt(mode, col, shown, st) ==
    IF st < 0 THEN (IF MissingIsZero(mode) THEN shown = 0 ELSE shown = -1)
    ELSE Rounded(shown, st, Dec(mode, col))

\* loss percentage = 100 * (sent - recv) / sent, in the mode's decimals
LossOK(mode, shown, sent, recv) ==
    IF sent = 0 THEN shown = 0
    ELSE LET p == Pow10(Dec(mode, "loss")) IN 2 * Abs(shown * sent - 100 * p * (sent - recv)) <= sent + 2

RowOK(mode, r, h) ==
    /\ r.ttl = h.ttl /\ r.sent = h.sent /\ r.recv = h.recv
    /\ r.ips = h.addrs                                   \* the addresses of the hop, in the state's order
    /\ LossOK(mode, r.loss, h.sent, h.recv)
    /\ Opt(mode, "last", r.last, h.last) /\ Opt(mode, "best", r.best, h.best) /\ Opt(mode, "wrst", r.wrst, h.wrst)
    /\ Rounded(r.avg, h.avg, Dec(mode, "avg")) /\ Rounded(r.sd, h.sd, Dec(mode, "sd"))

\* the report has exactly the hops of the state, in order
ReportOK(mode, rows, hops) == Len(rows) = Len(hops) /\ \A i \in 1..Len(rows) : RowOK(mode, rows[i], hops[i])

\* the flows report: one line per registered flow, in registration order, each the flow's entries
FlowsOK(lines, flows) == Len(lines) = Len(flows) /\ \A i \in 1..Len(lines) : lines[i].id = flows[i].id /\ lines[i].entries = flows[i].entries

\* the dot report: the graph whose edges join consecutive positions of every registered flow; an unknown position ("*")
\* is the node 0.0.0.0, and two unknown positions in a row contribute nothing
Node(x) == IF x = "*" THEN "0.0.0.0" ELSE x
FlowEdges(entries) == { <<Node(entries[i]), Node(entries[i + 1])>> :
                          i \in { j \in 1..(Len(entries) - 1) : ~(entries[j] = "*" /\ entries[j + 1] = "*") } }
DotOK(edges, flows) == { <<edges[i][1], edges[i][2]>> : i \in 1..Len(edges) } = UNION { FlowEdges(flows[i].entries) : i \in 1..Len(flows) }
=============================================================================
