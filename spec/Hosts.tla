-------------------------------- MODULE Hosts --------------------------------
(***************************************************************************)
(* The "addresses per hop" limit of the hops table (tui_app.rs expand_hosts *)
(* / contract_hosts / expand_hosts_max / contract_hosts_min, used by         *)
(* render/table.rs as addr_count().clamp(1, limit)) over trace data that     *)
(* grows: None (-1) = show all, otherwise a limit that must be at least 1.   *)
(* Legacy = TRUE gives expand_hosts_max as it was before repair F27.         *)
(***************************************************************************)
EXTENDS Integers

CONSTANTS MaxHops, MaxAddrs, Legacy
VARIABLES hops,     \* number of hops on display
          addrs,    \* [0..MaxHops-1 -> 0..MaxAddrs]: addresses of each hop (0: it has not responded)
          limit     \* -1 = none
hvars == <<hops, addrs, limit>>
None == -1

Max2(a, b) == IF a > b THEN a ELSE b
RECURSIVE MaxUpTo(_)
MaxUpTo(n) == IF n = 0 THEN 0 ELSE Max2(addrs[n - 1], MaxUpTo(n - 1))
\* max_hosts(): None without hops, otherwise the largest number of addresses of any hop (possibly 0)
MaxHosts == IF hops = 0 THEN None ELSE MaxUpTo(hops)

HInit == hops = 0 /\ addrs = [i \in 0..(MaxHops - 1) |-> 0] /\ limit \in {None, 1, 2}   \* the configured value: auto or >= 1
NewHop  == hops < MaxHops /\ hops' = hops + 1 /\ UNCHANGED <<addrs, limit>>
NewAddr == \E i \in 0..(MaxHops - 1) : i < hops /\ addrs[i] < MaxAddrs /\ addrs' = [addrs EXCEPT ![i] = @ + 1] /\ UNCHANGED <<hops, limit>>
Clear   == hops' = 0 /\ addrs' = [i \in 0..(MaxHops - 1) |-> 0] /\ UNCHANGED limit

ExpandHosts   == limit' = (IF limit = None THEN 1 ELSE IF MaxHosts # None /\ limit < MaxHosts THEN limit + 1 ELSE limit) /\ UNCHANGED <<hops, addrs>>
ContractHosts == limit' = (IF limit > 1 THEN limit - 1 ELSE None) /\ UNCHANGED <<hops, addrs>>
ExpandMax     == limit' = (IF MaxHosts = None THEN None ELSE IF Legacy THEN MaxHosts ELSE Max2(MaxHosts, 1)) /\ UNCHANGED <<hops, addrs>>
ContractMin   == limit' = 1 /\ UNCHANGED <<hops, addrs>>

HNext == NewHop \/ NewAddr \/ Clear \/ ExpandHosts \/ ContractHosts \/ ExpandMax \/ ContractMin
HSpec == HInit /\ [][HNext]_hvars

\* what render_hostname needs: clamp(1, limit) is only defined for limit >= 1
LimitOK == limit = None \/ limit >= 1
=============================================================================
