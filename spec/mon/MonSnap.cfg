SPECIFICATION Spec
CHECK_DEADLOCK FALSE
CONSTRAINT Progress
POSTCONDITION Linearizable
