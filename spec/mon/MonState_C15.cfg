SPECIFICATION Spec
CHECK_DEADLOCK FALSE
POSTCONDITION Accepted
INVARIANT C15_Bound
INVARIANT C15_Dense
INVARIANT C15_OneFlow
INVARIANT C15_Agree
INVARIANT C15_Extends
INVARIANT C15_FullStillAttributed
INVARIANT C15_PerFlow
INVARIANT C15_Default
INVARIANT NoPanic
