SPECIFICATION Spec
CHECK_DEADLOCK FALSE
POSTCONDITION Accepted
INVARIANT C07_Consecutive
INVARIANT C07_Bound
INVARIANT C07_Capacity
INVARIANT C07_Forward
INVARIANT C07_Dublin
INVARIANT C07_PrevNotReissued
INVARIANT KF_C07
INVARIANT C07_NoPanic
INVARIANT C07_Model
