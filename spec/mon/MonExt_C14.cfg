SPECIFICATION Spec
CHECK_DEADLOCK FALSE
POSTCONDITION Accepted
INVARIANT C14_Bounds
INVARIANT C14_Terminates
INVARIANT C14_Datagram
INVARIANT C14_Objects
INVARIANT C14_Parsed
INVARIANT C14_ObjectsInside
INVARIANT NoPanic
INVARIANT C14_Core
