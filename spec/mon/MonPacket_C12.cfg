SPECIFICATION Spec
CHECK_DEADLOCK FALSE
POSTCONDITION Accepted
INVARIANT C12_Get
INVARIANT C12_Set
INVARIANT C12_Frame
INVARIANT C12_Ctor
INVARIANT C12_Total
INVARIANT NoPanic
