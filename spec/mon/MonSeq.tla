------------------------------- MODULE MonSeq -------------------------------
(***************************************************************************)
(* C07 monitor: the log of calls made on the REAL TracerState (through the *)
(* verif-hooks wrapper) along TLC-generated and random walks, checked      *)
(* against the sequence-number clauses of the property and against the     *)
(* TracerOps transcription (the property is about this bookkeeping).       *)
(***************************************************************************)
EXTENDS Integers, Sequences, FiniteSets, TLC, Json, IOUtils

Ops == INSTANCE TracerOps
Rec == ndJsonDeserialize(IOEnv.TRACE)
N   == Len(Rec)

VARIABLES l, g, p
vars == <<l, g, p>>

G0 == [init |-> 0, dublin6 |-> FALSE, tcp |-> FALSE, seq |-> 0, rseq |-> 0, prevLo |-> 0, prevHi |-> 0, wraps |-> 0]
C(gg) == [bufferSize |-> 512, u16Max |-> 65535, initSeq |-> gg.init, dublin6 |-> gg.dublin6]
S(gg) == [seq |-> gg.seq, rseq |-> gg.rseq]

Step(gg, e) ==
    CASE e.e = "new"   -> [G0 EXCEPT !.init = e.init, !.dublin6 = e.dublin6, !.tcp = e.tcp, !.seq = e.init, !.rseq = e.init,
                                     !.wraps = gg.wraps]
      [] e.e = "alloc" -> [gg EXCEPT !.seq = e.seq, !.rseq = e.rseq]
      [] e.e = "adv"   -> [gg EXCEPT !.seq = e.seq, !.rseq = e.rseq, !.prevLo = gg.rseq, !.prevHi = gg.seq,
                                     !.wraps = @ + (IF e.rseq # gg.seq THEN 1 ELSE 0)]
      [] OTHER -> gg

Init == l = 1 /\ g = G0 /\ p = G0
Next == l <= N /\ l' = l + 1 /\ p' = g /\ g' = Step(g, Rec[l])
Spec == Init /\ [][Next]_vars

E == Rec[l - 1]
At(tag) == l > 1 /\ E.e = tag

C07_Consecutive == At("alloc") => E.pseq = p.seq /\ E.seq = p.seq + 1 /\ E.rseq = p.rseq
C07_Bound       == At("alloc") => E.pseq < 65535 /\ E.seq <= 65535 /\ E.pseq - E.rseq < 512 /\ E.n <= 512 /\ E.n = E.seq - E.rseq
C07_Capacity    == /\ At("alloc") /\ p.tcp => E.cap /\ p.seq - p.rseq < 512
                   /\ At("alloc") => E.cap = (p.seq - p.rseq < 512)
                   /\ At("capacity") => ~E.cap /\ p.seq - p.rseq = 512
C07_Forward     == At("adv") =>
                     /\ E.rseq = E.seq
                     /\ E.pseq = p.seq /\ E.prseq = p.rseq
                     /\ IF p.seq >= Ops!MaxSequence(C(p)) THEN E.rseq = p.init ELSE E.rseq = p.seq
C07_Dublin      == At("alloc") /\ p.dublin6 => (E.pseq - p.init) + 6 <= 1024 - 40 - 8
\* a sequence number of the immediately preceding round is never issued again in the current one
\* (so a delayed response to it can never be taken for a response to a current probe)
Reissued        == At("alloc") /\ p.prevHi > p.prevLo /\ E.pseq >= p.prevLo /\ E.pseq < p.prevHi
\* F6: TCP, initial sequence >= 64000 and two consecutive rounds that together consume more than
\* 65023 - initial sequence numbers (hundreds of port collisions)
F6              == p.tcp /\ p.init >= 64000
C07_PrevNotReissued == Reissued => F6
KF_C07          == (Reissued /\ F6) => PrintT(<<"KNOWN-FINDING", "C07", "F6", l - 1>>)
C07_NoPanic     == At("end") => ~E.panic
\* the acceptance window is exactly the transcribed in_round()
C07_Model       == At("adv") => \A i \in 1..Len(E.q) : E.q[i][2] = Ops!InRound(C(g), S(g), E.q[i][1])

Accepted == IF TLCGet("stats").diameter - 1 = N THEN TRUE
            ELSE Print(<<"TRACE-NOT-CONSUMED", TLCGet("stats").diameter - 1, N>>, FALSE)
=============================================================================
