SPECIFICATION Spec
CHECK_DEADLOCK FALSE
POSTCONDITION Accepted
INVARIANT C14_SplitModel
