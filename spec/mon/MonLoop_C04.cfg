SPECIFICATION Spec
CHECK_DEADLOCK FALSE
POSTCONDITION Accepted
INVARIANT C09_NoPanic
