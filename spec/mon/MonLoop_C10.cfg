SPECIFICATION Spec
CHECK_DEADLOCK FALSE
POSTCONDITION Accepted
INVARIANT C10_Shape
INVARIANT C10_Target
INVARIANT C10_Distance
INVARIANT C10_Nothing
INVARIANT C10_NoPanic
INVARIANT C10_Probed
INVARIANT C10_Flow
INVARIANT C10_Regrow
