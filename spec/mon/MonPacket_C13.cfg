SPECIFICATION Spec
CHECK_DEADLOCK FALSE
POSTCONDITION Accepted
INVARIANT C13_Value
INVARIANT C13_Verifies
INVARIANT C13_Paris
INVARIANT NoPanic
