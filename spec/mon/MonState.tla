------------------------------- MODULE MonState -------------------------------
(***************************************************************************)
(* C05 / C15 / C19 monitor: every round fed to the REAL State (by the real *)
(* strategy over the simulated network, or synthetic rounds satisfying     *)
(* RoundWellFormed) is also applied to the specification's aggregation     *)
(* (HopStats!Apply, proved equal to the declarative HopStats!Agg by TLC)   *)
(* and flow attribution (Flows!Attribute); every getter of every hop of    *)
(* every snapshot is then compared.  Times are integer microseconds.       *)
(***************************************************************************)
EXTENDS Integers, Sequences, FiniteSets, TLC, Json, IOUtils

HS == INSTANCE HopStats
FL == INSTANCE Flows

Rec == ndJsonDeserialize(IOEnv.TRACE)
N   == Len(Rec)

VARIABLES l, g, p
vars == <<l, g, p>>

G0 == [ cfg |-> [e |-> "none", max_samples |-> 0, max_flows |-> 0], fs0 |-> HS!Flow0, reg |-> <<>>, fsf |-> <<>>,
        prevFlows |-> <<>>, fsi |-> <<>>, roundFlow |-> 0, lastRound |-> [largest |-> 0, probes |-> <<>>], lastFlow |-> <<>>, pubs |-> 0, attributed |-> 0 ]

\* the JSON probe record as a HopStats probe record
Pr(x) == IF x.st = "C" THEN [st |-> "C", ttl |-> x.ttl, rtt |-> x.rtt, host |-> x.host, seq |-> x.seq, sport |-> x.sport,
                             dport |-> x.dport, kind |-> x.kind, tos |-> x.tos, ext |-> x.ext, eck |-> x.eck, ack |-> x.ack, round |-> x.round]
         ELSE IF x.st \in {"A", "F"} THEN [st |-> x.st, ttl |-> x.ttl, rtt |-> 0, host |-> 0, seq |-> x.seq, sport |-> x.sport,
                             dport |-> x.dport, kind |-> "none", tos |-> -1, ext |-> <<>>, eck |-> -1, ack |-> -1, round |-> x.round]
         ELSE [st |-> x.st]
RoundOf(e) == [largest |-> e.largest, probes |-> [i \in 1..Len(e.probes) |-> Pr(e.probes[i])]]

\* the flow(s) whose round count went up by one in this snapshot: the implementation's own attribution
PrevRc(prev, i) == IF i <= Len(prev) THEN prev[i].rc ELSE 0
IncSet(e, prev) == {i \in 1..Len(e.flows) : e.flows[i].rc = PrevRc(prev, i) + 1}

FsOf(gg, id) == IF id \in DOMAIN gg.fsf THEN gg.fsf[id] ELSE HS!Flow0

Step(gg, e) ==
    CASE e.e = "cfg" -> [G0 EXCEPT !.cfg = e]
      [] e.e = "pub" ->
            LET r  == RoundOf(e)
                ms == gg.cfg.max_samples
                at == FL!Attribute(gg.reg, r, gg.cfg.max_flows)
                id == at[2]
            IN  [gg EXCEPT !.fs0 = HS!Apply(@, r, ms),
                           !.reg = at[1],
                           !.roundFlow = IF id > 0 THEN id ELSE @,
                           !.attributed = id,
                           !.fsf = IF id > 0
                                   THEN [x \in (DOMAIN @) \cup {id} |-> IF x = id THEN HS!Apply(FsOf(gg, id), r, ms) ELSE @[x]]
                                   ELSE @,
                           !.lastRound = r, !.lastFlow = FL!FlowOfRound(r), !.pubs = @ + 1]
      [] e.e = "snap" /\ "flows" \in DOMAIN e ->
            LET inc == IncSet(e, gg.prevFlows) IN
            [gg EXCEPT !.prevFlows = e.flows,
                       !.fsi = [x \in (DOMAIN @) \cup inc |->
                                  IF x \in inc THEN HS!Apply(IF x \in DOMAIN @ THEN @[x] ELSE HS!Flow0, gg.lastRound, gg.cfg.max_samples)
                                  ELSE @[x]]]
      [] OTHER -> gg

Init == l = 1 /\ g = G0 /\ p = G0
Next == l <= N /\ l' = l + 1 /\ p' = g /\ g' = Step(g, Rec[l])
Spec == Init /\ [][Next]_vars

E == Rec[l - 1]
At(tag) == l > 1 /\ E.e = tag
Abs(x) == IF x < 0 THEN -x ELSE x
Full == At("snap") /\ p.cfg.e = "cfg"

(***************************************************************************)
(* C05                                                                      *)
(***************************************************************************)
HopMatches(h, m) ==
    /\ h.sent = m.sent /\ h.recv = m.recv /\ h.failed = m.failed
    /\ h.fl = m.fl /\ h.bl = m.bl
    /\ h.last = m.last /\ h.best = m.best /\ h.worst = m.worst
    /\ h.jit = m.jit /\ h.jmax = m.jmax
    /\ h.samples = m.samples
    /\ h.addrs = m.addrs
    /\ h.lsport = m.lsport /\ h.ldport = m.ldport /\ h.lseq = m.lseq /\ h.lkind = m.lkind /\ h.tos = m.tos
    /\ h.ext = m.ext
C05_Exact == Full => \A i \in 1..Len(E.hops) : E.hops[i].ttl > 0 => HopMatches(E.hops[i], HS!HopOf(p.fs0, E.hops[i].ttl))
\* derived floating-point figures against the exact rationals (cross-multiplied)
C05_Derived == Full => \A i \in 1..Len(E.hops) :
    LET h == E.hops[i] m == HS!HopOf(p.fs0, h.ttl) IN
    h.ttl > 0 =>
      /\ (m.recv > 0 /\ m.total < 100000000) => Abs(h.avg16 * m.recv - 16 * m.total) <= m.recv
      /\ m.recv = 0 => h.avg16 = 0
      /\ (m.recv > 0 /\ m.jsum < 100000000) => Abs(h.javg16 * m.recv - 16 * m.jsum) <= m.recv
      /\ (m.sent > 0 /\ m.sent < 20000) => /\ Abs(h.loss1000 * m.sent - 100000 * (m.sent - m.recv)) <= m.sent
                                           /\ Abs(h.floss1000 * m.sent - 100000 * m.fl) <= m.sent
                                           /\ Abs(h.bloss1000 * m.sent - 100000 * m.bl) <= m.sent
      /\ h.loss1000 >= 0 /\ h.loss1000 <= 100000
      /\ h.jinta_finite
\* standard deviation (sample), only while the sums fit 32-bit integers: round-trip times that are
\* multiples of 100us up to 10ms and at most 20 samples (the "sd" family)
C05_StdDev == Full /\ p.cfg.synthetic => \A i \in 1..Len(E.hops) :
    LET h == E.hops[i] m == HS!HopOf(p.fs0, h.ttl)
        n == m.recv
        sx == m.total \div 100             \* sum of x in units of 100us
        sxx == m.sq \div 10000             \* sum of x^2
        V == n * sxx - sx * sx             \* n(n-1) * variance
        sdq == h.sd16 \div 16              \* microseconds (rounded down), 100us units * 100
    IN  (h.ttl > 0 /\ n >= 2 /\ n <= 20 /\ m.sq >= 0 /\ m.worst <= 10000 /\ m.total % 100 = 0 /\ m.sq % 10000 = 0) =>
          \* sd (in 100us units) = sqrt(V / (n (n-1))); compare sd in microseconds / 10 with +-1.5 slack
          LET s10 == sdq \div 10 IN       \* sd in units of 10us = (100us units) * 10
          /\ (IF s10 > 2 THEN (s10 - 2) * (s10 - 2) * n * (n - 1) ELSE 0) <= 100 * V
          /\ 100 * V <= (s10 + 2) * (s10 + 2) * n * (n - 1)
C05_Laws == Full => \A i \in 1..Len(E.hops) :
    LET h == E.hops[i] IN
    /\ h.recv + h.failed <= h.sent
    /\ h.fl + h.bl <= h.sent - h.recv - h.failed
    /\ Len(h.samples) <= p.cfg.max_samples
    /\ h.recv > 0 => h.best <= h.last /\ h.last <= h.worst /\ 16 * h.best <= h.avg16 + 1 /\ h.avg16 <= 16 * h.worst + 1

(***************************************************************************)
(* C10 (table half): window of the default flow                             *)
(***************************************************************************)
C10_Window == Full =>
    LET hr == HS!HopRange(p.fs0) IN
    /\ Len(E.hops) = Len(hr)
    /\ \A i \in 1..Len(hr) : E.hops[i].ttl = hr[i].ttl
    /\ E.rc = p.fs0.rc
    /\ (p.fs0.highestRound > 0 /\ HS!HopOf(p.fs0, p.fs0.highestRound).ttl > 0) => E.tgt_ttl = p.fs0.highestRound

(***************************************************************************)
(* C15                                                                      *)
(***************************************************************************)
\* (drift only, see MonState_C15conf.cfg) the registry equals the transcribed first-match registry
C15_Registry == Full =>
    /\ E.nflows = Len(p.reg)
    /\ Len(E.flows) = Len(p.reg)
    /\ \A i \in 1..Len(p.reg) : E.flows[i].id = i /\ E.flows[i].entries = p.reg[i]
    /\ (p.attributed > 0 => E.round_flow = p.attributed)
\* --- verdict clauses: stated over the implementation's own registry as seen in consecutive snapshots ---
Inc == IncSet(E, p.prevFlows)
C15_Bound    == Full => E.nflows <= p.cfg.max_flows /\ E.nflows = Len(E.flows)
\* identifiers are issued densely from 1, at most one per round, and none disappears
C15_Dense    == Full => /\ \A i \in 1..Len(E.flows) : E.flows[i].id = i
                        /\ Len(E.flows) >= Len(p.prevFlows) /\ Len(E.flows) <= Len(p.prevFlows) + 1
\* a round is attributed to at most one flow; no other flow's count moves
C15_OneFlow  == Full => /\ Cardinality(Inc) <= 1
                        /\ \A i \in 1..Len(E.flows) : i \notin Inc => E.flows[i].rc = PrevRc(p.prevFlows, i)
\* the round is attributed to a flow that agrees with every address seen in it
C15_Agree    == Full /\ Inc # {} =>
    LET i == CHOOSE x \in Inc : TRUE IN
    /\ E.round_flow = i
    /\ FL!Agrees(E.flows[i].entries, p.lastFlow)
\* once issued, an identifier only ever extends what was recorded under it
C15_Extends  == Full => \A i \in 1..Len(p.prevFlows) : i <= Len(E.flows) /\ FL!Extends(p.prevFlows[i].entries, E.flows[i].entries)
\* a round is left unattributed only when the registry is full and no recorded flow matches it
C15_FullStillAttributed == Full /\ Inc = {} =>
    /\ Len(p.prevFlows) >= p.cfg.max_flows
    /\ \A i \in 1..Len(p.prevFlows) : FL!Check(p.prevFlows[i].entries, p.lastFlow) = "nomatch"
\* per-flow round counts and statistics are those of exactly the rounds attributed to the flow
C15_PerFlow == Full => \A i \in 1..Len(E.flows) :
    LET f == E.flows[i] m == (IF i \in DOMAIN g.fsi THEN g.fsi[i] ELSE HS!Flow0) hr == HS!HopRange(m) IN
    /\ f.rc = m.rc
    /\ Len(f.hops) = Len(hr)
    /\ \A j \in 1..Len(hr) : f.hops[j].ttl = hr[j].ttl /\ f.hops[j].sent = hr[j].sent /\ f.hops[j].recv = hr[j].recv
                              /\ f.hops[j].failed = hr[j].failed
C15_Default == Full => E.rc = p.pubs

(***************************************************************************)
(* C19                                                                      *)
(***************************************************************************)
\* hops that answered in the last round carry the status the property prescribes; the expectation is
\* computed from the quoted checksums of that round in TTL order
Answered(r) == SelectSeq(r.probes, LAMBDA x : x.st = "C")
RECURSIVE NatFold(_, _, _, _)
NatFold(cs, i, prev, acc) ==
    IF i > Len(cs) THEN acc
    ELSE IF cs[i].eck >= 0 /\ cs[i].ack >= 0
         THEN LET det == IF prev < 0 THEN cs[i].eck # cs[i].ack ELSE prev # cs[i].ack
              IN  NatFold(cs, i + 1, cs[i].ack, acc @@ (cs[i].ttl :> IF det THEN "yes" ELSE "no"))
         ELSE NatFold(cs, i + 1, prev, acc)
C19_Status == Full =>
    LET exp == NatFold(Answered(p.lastRound), 1, -1, <<>>) IN
    \A i \in 1..Len(E.hops) :
        LET h == E.hops[i] IN
        /\ (h.ttl \in DOMAIN exp) => h.nat = exp[h.ttl]
        /\ (h.ttl > 0 /\ HS!HopOf(p.fs0, h.ttl).nat = "na") => h.nat = "na"
\* the same holds in the table of the flow the round was attributed to (the registry has room: the round was
\* registered or matched, so that flow was updated by this very round)
C19_FlowStatus == Full /\ "fhops" \in DOMAIN E /\ E.round_flow > 0 /\ E.nflows < p.cfg.max_flows =>
    LET exp == NatFold(Answered(p.lastRound), 1, -1, <<>>) IN
    \A i \in 1..Len(E.fhops) : (E.fhops[i].ttl \in DOMAIN exp) => E.fhops[i].nat = exp[E.fhops[i].ttl]
\* against simulator ground truth (single stable path, devices at the distances listed in cfg.nat_at):
\* a responding hop is flagged exactly when a rewriting device lies between it and the previous
\* responding hop of the round; every other configuration reports not-applicable
RespTtls(r) == {x.ttl : x \in {r.probes[i] : i \in {j \in 1..Len(r.probes) : r.probes[j].st = "C"}}}
C19_Truth == Full /\ ~p.cfg.synthetic /\ p.cfg.stable =>
    LET rt == RespTtls(p.lastRound)
        devs == {p.cfg.nat_at[i] : i \in 1..Len(p.cfg.nat_at)}
        prevOf(t) == IF {u \in rt : u < t} = {} THEN 0 ELSE CHOOSE u \in rt : u < t /\ \A w \in rt : w < t => w <= u
    IN  \A i \in 1..Len(E.hops) :
          LET h == E.hops[i] IN
          h.ttl \in rt =>
             IF p.cfg.nat_cell
             THEN h.nat = (IF \E d \in devs : d > prevOf(h.ttl) /\ d <= h.ttl THEN "yes" ELSE "no")
             ELSE h.nat = "na"
C19_Model == Full => \A i \in 1..Len(E.hops) : E.hops[i].ttl > 0 => E.hops[i].nat = HS!HopOf(p.fs0, E.hops[i].ttl).nat

NoPanic == At("end") => ~E.panic

Accepted == IF TLCGet("stats").diameter - 1 = N THEN TRUE
            ELSE Print(<<"TRACE-NOT-CONSUMED", TLCGet("stats").diameter - 1, N>>, FALSE)
=============================================================================
