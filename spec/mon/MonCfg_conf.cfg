SPECIFICATION Spec
CHECK_DEADLOCK FALSE
POSTCONDITION Accepted
INVARIANT C16_Outcome
