SPECIFICATION Spec
CHECK_DEADLOCK FALSE
POSTCONDITION Accepted
INVARIANT C01_Slots
INVARIANT C01_Exact
INVARIANT C01_RoundNo
INVARIANT C01_Totals
INVARIANT C01_TotalsCover
