SPECIFICATION Spec
CHECK_DEADLOCK FALSE
POSTCONDITION Accepted
INVARIANT C09_PubOrder
INVARIANT C09_End
INVARIANT C09_Classify
INVARIANT C09_Reissue
INVARIANT C09_NoPanic
INVARIANT C01_Slots
INVARIANT C01_Exact
