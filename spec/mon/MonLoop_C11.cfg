SPECIFICATION Spec
CHECK_DEADLOCK FALSE
POSTCONDITION Accepted
INVARIANT C11_Wire
INVARIANT C11_OneDatagram
INVARIANT C09_NoPanic
