SPECIFICATION Spec
CHECK_DEADLOCK FALSE
POSTCONDITION Accepted
INVARIANT C01_Slots
INVARIANT C01_Exact
INVARIANT C03_NoOp
INVARIANT C03_Genuine
INVARIANT C11_Wire
INVARIANT C09_NoPanic
