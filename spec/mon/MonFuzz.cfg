SPECIFICATION Spec
CHECK_DEADLOCK FALSE
POSTCONDITION Accepted
INVARIANT C04_NoPanic
INVARIANT C04_Ran
INVARIANT C04_Classes
