------------------------------- MODULE MonTui -------------------------------
(***************************************************************************)
(* C17 / C18 monitor over the log of the real TUI event loop: one `frame`  *)
(* event per drawn frame (selection state, shape of the displayed data,    *)
(* the hop addresses visible on the captured screen), `key` events for the *)
(* commands dispatched, `upd` events for trace updates / resizes, and one  *)
(* `end` event per run.                                                     *)
(***************************************************************************)
EXTENDS Integers, Sequences, FiniteSets, TLC, Json, IOUtils

Rec == ndJsonDeserialize(IOEnv.TRACE)
N   == Len(Rec)
VARIABLES l, cur, prev   \* cur / prev: the last and the last-but-one frame of the run (or [e |-> "none"])
vars == <<l, cur, prev>>
NoFrame == [e |-> "none"]
Init == l = 1 /\ cur = NoFrame /\ prev = NoFrame
Next == /\ l <= N /\ l' = l + 1
        /\ IF Rec[l].e = "frame" THEN cur' = Rec[l] /\ prev' = cur
           ELSE IF Rec[l].e \in {"tcfg", "end"} THEN cur' = NoFrame /\ prev' = NoFrame
           ELSE UNCHANGED <<cur, prev>>
Spec == Init /\ [][Next]_vars

E == Rec[l - 1]
At(tag) == l > 1 /\ E.e = tag
SetOf(s) == {s[i] : i \in 1..Len(s)}

(***************************************************************************)
(* C17                                                                      *)
(***************************************************************************)
\* F24 also shows as a panic: ratatui turns a failure of the same solver into `failed to split: InternalSolverError`
SolverPanic(e) == e.panic /\ Len(e.msg) >= 15 /\ SubSeq(e.msg, 1, 15) = "failed to split"
C17_NoPanic == At("end") => ~E.panic \/ SolverPanic(E)
\* the selected hop, hop address, flow, trace and settings tab refer to entries that exist in the data
\* being displayed
C17_Selection == At("frame") =>
    /\ E.flow_known
    /\ E.flow = 0 \/ E.flow \in SetOf(E.flow_ids)
    /\ E.sel = -1 \/ E.sel < E.hop_count
    /\ E.trace >= 0 /\ E.trace < E.ntraces
    /\ E.tab >= 0 /\ E.tab < 7
    /\ (E.sel >= 0 /\ E.naddrs_sel > 0) => E.addr_sel < E.naddrs_sel
    /\ (E.sel >= 0 /\ E.naddrs_sel = 0) => E.addr_sel = 0
    /\ E.show_flows => (E.flow # 0 /\ E.flow \in SetOf(E.fc))
    /\ ~(E.show_chart /\ E.show_map)

\* the selected settings item is a row the dialog renders; the column list stays a permutation of itself
C17_Settings == At("frame") /\ E.show_settings => E.item = -1 \/ E.item < E.rows[E.tab + 1]
ColIds(f) == {f.cols[i].id : i \in 1..Len(f.cols)}
C17_Columns == (At("frame") /\ prev.e = "frame") => Len(E.cols) = Len(prev.cols) /\ ColIds(E) = ColIds(prev) /\ Cardinality(ColIds(E)) = Len(E.cols)

\* the addresses-per-hop limit is "all" or at least one (the host cell clamps the address count to 1 .. limit)
C17_HostsLimit == At("frame") => E.max_addrs = -1 \/ E.max_addrs >= 1

\* a draw or command that does not complete (the harness watchdog saw no progress and recorded where the
\* main thread was): F24 is the layout solver of the ratatui dependency (cassowary) cycling on the
\* over-constrained column widths of the hops table - nondeterministic (it depends on the process's hash
\* seed); any other place is a violation
KnownHang(e) == e.site = "cassowary"
C17_NoHang == At("hang") => KnownHang(E)
KF_C17     == ((At("hang") /\ KnownHang(E)) \/ (At("end") /\ SolverPanic(E))) => PrintT(<<"KNOWN-FINDING", "C17", "F24", l - 1>>)

(***************************************************************************)
(* C18                                                                      *)
(***************************************************************************)
\* no frame contains the address of a responding hop with TTL <= n; the source address is hidden
\* (`found`: hops one of whose addresses other than the target's own address is on screen)
C18_Hidden == At("frame") /\ E.privacy >= 0 =>
    /\ \A t \in SetOf(E.found) : t > E.privacy
    /\ ~E.src_found
\* F13: the header always shows the address of the target the user asked for, also when the privacy level
\* covers the hop at which the target answers (`tfound`: hops holding the target's address while it is on screen)
KF_C18 == (At("frame") /\ E.privacy >= 0 /\ \E t \in SetOf(E.tfound) : t <= E.privacy)
             => PrintT(<<"KNOWN-FINDING", "C18", "F13", l - 1>>)
\* hops above n are shown normally: every hop whose table row is on the captured screen (`trows`: the rows the
\* harness could read back, which needs the main view and the numeric columns) shows one of its addresses
\* when it responded, the mode shows addresses and its ttl is above n
RowTtls(f) == {f.trows[i].ttl : i \in 1..Len(f.trows)}
\* (and the host column is wide enough for an address: a wide terminal, no more columns shown than by default)
ShownCols(f) == Cardinality({i \in 1..Len(f.cols) : f.cols[i].shown})
HostShown(f) == \E i \in 1..Len(f.cols) : f.cols[i].id = "Host" /\ f.cols[i].shown
C18_Shown == At("frame") /\ E.amode \in {"Ip", "Both"} /\ E.flow = 0 /\ ~E.show_details /\ E.w >= 120 /\ ShownCols(E) <= 11 /\ HostShown(E) =>
    \A t \in RowTtls(E) : (t > E.privacy /\ t \in SetOf(E.resp)) => t \in SetOf(E.vis)     \* vis: any address of the hop is on screen
\* expanding / contracting from the keyboard moves n by exactly one step between off, 0 and the hop count
C18_Step == (At("frame") /\ prev.e = "frame" /\ ~prev.show_help /\ ~prev.show_settings) =>
    /\ E.key = "expand_privacy" =>
         E.privacy = (IF prev.privacy = -1 THEN 0 ELSE IF prev.privacy < prev.hop_count THEN prev.privacy + 1 ELSE prev.privacy)
    /\ E.key = "contract_privacy" =>
         E.privacy = (IF prev.privacy > 0 THEN prev.privacy - 1 ELSE -1)
    /\ E.key \notin {"expand_privacy", "contract_privacy"} => E.privacy = prev.privacy

Accepted == IF TLCGet("stats").diameter - 1 = N THEN TRUE
            ELSE Print(<<"TRACE-NOT-CONSUMED", TLCGet("stats").diameter - 1, N>>, FALSE)
=============================================================================
