------------------------------- MODULE MonTui -------------------------------
(***************************************************************************)
(* C17 / C18 monitor over the log of the real TUI event loop: one `frame`  *)
(* event per drawn frame (selection state, shape of the displayed data,    *)
(* the hop addresses visible on the captured screen), `key` events for the *)
(* commands dispatched, `upd` events for trace updates / resizes, and one  *)
(* `end` event per run.                                                     *)
(***************************************************************************)
EXTENDS Integers, Sequences, FiniteSets, TLC, Json, IOUtils

Rec == ndJsonDeserialize(IOEnv.TRACE)
N   == Len(Rec)
VARIABLES l, cur, prev   \* cur / prev: the last and the last-but-one frame of the run (or [e |-> "none"])
vars == <<l, cur, prev>>
NoFrame == [e |-> "none"]
Init == l = 1 /\ cur = NoFrame /\ prev = NoFrame
Next == /\ l <= N /\ l' = l + 1
        /\ IF Rec[l].e = "frame" THEN cur' = Rec[l] /\ prev' = cur
           ELSE IF Rec[l].e \in {"tcfg", "end"} THEN cur' = NoFrame /\ prev' = NoFrame
           ELSE UNCHANGED <<cur, prev>>
Spec == Init /\ [][Next]_vars

E == Rec[l - 1]
At(tag) == l > 1 /\ E.e = tag
SetOf(s) == {s[i] : i \in 1..Len(s)}

(***************************************************************************)
(* C17                                                                      *)
(***************************************************************************)
C17_NoPanic == At("end") => ~E.panic
\* the selected hop, hop address, flow, trace and settings tab refer to entries that exist in the data
\* being displayed
C17_Selection == At("frame") =>
    /\ E.flow_known
    /\ E.flow = 0 \/ E.flow \in SetOf(E.flow_ids)
    /\ E.sel = -1 \/ E.sel < E.hop_count
    /\ E.trace >= 0 /\ E.trace < E.ntraces
    /\ E.tab >= 0 /\ E.tab < 7
    /\ (E.sel >= 0 /\ E.naddrs_sel > 0) => E.addr_sel < E.naddrs_sel
    /\ (E.sel >= 0 /\ E.naddrs_sel = 0) => E.addr_sel = 0
    /\ E.show_flows => (E.flow # 0 /\ E.flow \in SetOf(E.fc))
    /\ ~(E.show_chart /\ E.show_map)

\* the selected settings item is a row the dialog renders; the column list stays a permutation of itself
C17_Settings == At("frame") /\ E.show_settings => E.item = -1 \/ E.item < E.rows[E.tab + 1]
ColIds(f) == {f.cols[i].id : i \in 1..Len(f.cols)}
C17_Columns == (At("frame") /\ prev.e = "frame") => Len(E.cols) = Len(prev.cols) /\ ColIds(E) = ColIds(prev) /\ Cardinality(ColIds(E)) = Len(E.cols)

\* a draw or command that does not complete (the harness watchdog saw no progress and recorded where the
\* main thread was): F24 is the layout solver of the ratatui dependency (cassowary) cycling on the
\* over-constrained column widths of the hops table - nondeterministic (it depends on the process's hash
\* seed); any other place is a violation
KnownHang(e) == e.site = "cassowary"
C17_NoHang == At("hang") => KnownHang(E)
KF_C17     == (At("hang") /\ KnownHang(E)) => PrintT(<<"KNOWN-FINDING", "C17", "F24", l - 1>>)

(***************************************************************************)
(* C18                                                                      *)
(***************************************************************************)
\* no frame contains the address of a responding hop with TTL <= n; the source address is hidden
\* (`found`: hops one of whose addresses other than the target's own address is on screen)
C18_Hidden == At("frame") /\ E.privacy >= 0 =>
    /\ \A t \in SetOf(E.found) : t > E.privacy
    /\ ~E.src_found
\* F13: the header always shows the address of the target the user asked for, also when the privacy level
\* covers the hop at which the target answers (`tfound`: hops holding the target's address while it is on screen)
KF_C18 == (At("frame") /\ E.privacy >= 0 /\ \E t \in SetOf(E.tfound) : t <= E.privacy)
             => PrintT(<<"KNOWN-FINDING", "C18", "F13", l - 1>>)
\* hops above n are shown normally: checked on frames where the table is certainly on screen and complete
\* (large terminal, no dialog or alternative view, at most 6 hops, IP shown, addresses not limited)
TableVisible(f) == /\ f.w >= 120 /\ f.h >= 50 /\ ~f.show_help /\ ~f.show_settings /\ ~f.show_details /\ ~f.show_chart /\ ~f.show_map
                   /\ f.hop_count >= 0 /\ f.hop_count <= 6 /\ f.amode \in {"Ip", "Both"} /\ f.max_addrs = -1 /\ f.flow = 0 /\ f.default_cols
C18_Shown == At("frame") /\ TableVisible(E) =>
    \A t \in SetOf(E.resp) : (t > E.privacy) => t \in SetOf(E.found) \cup SetOf(E.tfound)
\* expanding / contracting from the keyboard moves n by exactly one step between off, 0 and the hop count
C18_Step == (At("frame") /\ prev.e = "frame" /\ ~prev.show_help /\ ~prev.show_settings) =>
    /\ E.key = "expand_privacy" =>
         E.privacy = (IF prev.privacy = -1 THEN 0 ELSE IF prev.privacy < prev.hop_count THEN prev.privacy + 1 ELSE prev.privacy)
    /\ E.key = "contract_privacy" =>
         E.privacy = (IF prev.privacy > 0 THEN prev.privacy - 1 ELSE -1)
    /\ E.key \notin {"expand_privacy", "contract_privacy"} => E.privacy = prev.privacy

Accepted == IF TLCGet("stats").diameter - 1 = N THEN TRUE
            ELSE Print(<<"TRACE-NOT-CONSUMED", TLCGet("stats").diameter - 1, N>>, FALSE)
=============================================================================
