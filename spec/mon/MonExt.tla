------------------------------- MODULE MonExt -------------------------------
(* C14 monitor: RFC 4884 / 4950 messages built from abstract descriptions by the independent builder and *)
(* parsed with the real views; plus corrupted variants.                                                  *)
EXTENDS Integers, Sequences, FiniteSets, TLC, Json, IOUtils
X == INSTANCE Ext
Rec == ndJsonDeserialize(IOEnv.TRACE)
N   == Len(Rec)
VARIABLES l
Init == l = 1
Next == l <= N /\ l' = l + 1
Spec == Init /\ [][Next]_l
E == Rec[l - 1]
At(tag) == l > 1 /\ E.e = tag
Min2(a, b) == IF a <= b THEN a ELSE b

\* the quoted datagram and the extension lie within the message and do not overlap
Bounds(p) == /\ p.p_off = 0 /\ p.p_len >= 0 /\ p.p_len <= p.total
             /\ p.has_ext => p.e_off >= p.p_off + p.p_len /\ p.e_off + p.e_len <= p.total /\ p.e_len >= 4
C14_Bounds == (At("ext") \/ At("extc")) => (E.p.has_ext \/ ~E.p.has_ext) /\ (IF At("extc") /\ E.panic THEN TRUE ELSE Bounds(E.p))
\* parsing stops and iteration terminates: at most one step per 4 octets of the message
C14_Terminates == /\ At("extc") => ~E.panic /\ E.p.iters <= E.p.total \div 4 + 1
                  /\ At("ext") => E.p.iters <= E.p.total \div 4 + 1
                  /\ ~At("ext_panic")
\* the original datagram is recovered unchanged (up to the zero padding RFC 4884 prescribes)
C14_Datagram == At("ext") =>
    /\ E.p.prefix_ok
    /\ E.d.form \in {"compliant", "legacy"} => E.p.pad_zero /\ E.p.p_len >= Min2(E.d.qlen, 128)
    /\ E.d.form = "compliant" => E.p.p_len >= E.d.qlen
    /\ (E.d.form = "none" /\ E.d.qlen <= 128) => E.p.p_len = E.d.qlen /\ ~E.p.has_ext
\* exactly the objects, labels and EXP / S / TTL values that were encoded, in order
C14_Objects == At("ext") /\ E.d.form \in {"compliant", "legacy"} =>
    /\ E.p.has_ext /\ E.p.version = 2
    /\ E.p.objs = E.d.objs
\* ... and the objects the tracer reports to its users (trippy-core Extensions::try_from over the same octets) are those
\* objects, in order (an MPLS object is reported by its members; an MPLS object without any member is malformed and
\* makes the conversion fail, which is then all that is required)
CoreObj(o) == [cls |-> o.cls, plen |-> o.plen, mpls |-> o.mpls]
CoreOf(objs) == [i \in 1..Len(objs) |-> CoreObj(objs[i])]
SubOK(c, o) == c.cls = 1 \/ c.sub = o.sub
C14_Core == At("ext") /\ E.d.form \in {"compliant", "legacy"} /\ E.p.has_ext /\ E.p.version = 2 =>
    IF \E i \in 1..Len(E.p.objs) : E.p.objs[i].cls = 1 /\ E.p.objs[i].plen = 0
    THEN TRUE
    ELSE /\ E.p.core_ok
         /\ Len(E.p.core) = Len(E.p.objs)
         /\ CoreOf(E.p.core) = CoreOf(E.p.objs)
         /\ \A i \in 1..Len(E.p.objs) : SubOK(E.p.core[i], E.p.objs[i])
\* every reported object lies inside the extension structure: its length field covers exactly its header and
\* payload, and the objects together do not exceed the structure
RECURSIVE SumLen(_, _)
SumLen(objs, i) == IF i > Len(objs) THEN 0 ELSE objs[i].olen + SumLen(objs, i + 1)
C14_ObjectsInside == ((At("ext") \/ (At("extc") /\ ~E.panic)) /\ E.p.has_ext) =>
    /\ \A i \in 1..Len(E.p.objs) : E.p.objs[i].olen = 4 + E.p.objs[i].plen
    /\ SumLen(E.p.objs, 1) <= E.p.e_len - 4
C14_Parsed == ~At("ext_unparsed")
\* (drift) the split is the transcribed splitter
C14_SplitModel == (At("ext") \/ (At("extc") /\ ~E.panic)) =>
    LET s == X!Split(E.p.len_field * (IF At("ext") THEN E.d.unit ELSE E.unit), E.p.total) IN
    /\ E.p.p_len = s.p_len /\ E.p.has_ext = s.has_ext /\ E.p.e_off = s.e_off /\ E.p.e_len = s.e_len
NoPanic == At("end") => ~E.panic

Accepted == IF TLCGet("stats").diameter - 1 = N THEN TRUE
            ELSE Print(<<"TRACE-NOT-CONSUMED", TLCGet("stats").diameter - 1, N>>, FALSE)
=============================================================================
