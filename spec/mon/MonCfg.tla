------------------------------- MODULE MonCfg -------------------------------
(***************************************************************************)
(* C16 monitor.  Two kinds of logs:                                         *)
(*  - the option layering driver (vt cfg): one `layer` event per (option,    *)
(*    layer state, background) with the canonical command line value, file  *)
(*    value, documented default and the effective value read back from the  *)
(*    real TrippyConfig;                                                    *)
(*  - runs of accepted configurations over the simulated network (vh sim):  *)
(*    a `cfg` event (the builder parameters) and an `end` event (outcome).  *)
(***************************************************************************)
EXTENDS Config, Sequences, TLC, Json, IOUtils

Rec == ndJsonDeserialize(IOEnv.TRACE)
N   == Len(Rec)
VARIABLES l, cf       \* cf: the last cfg event
vars == <<l, cf>>
Init == l = 1 /\ cf = [e |-> "none"]
Next == /\ l <= N /\ l' = l + 1
        /\ cf' = IF Rec[l].e = "cfg" THEN Rec[l] ELSE cf
Spec == Init /\ [][Next]_vars

E == Rec[l - 1]
At(tag) == l > 1 /\ E.e = tag

\* F23: the help text documents `short` as the default of tui-geoip-mode, the effective default is `off`
\* (with `short` and no database validation would reject the default configuration)
F23(e) == e.opt = "tui-geoip-mode" /\ e.cli = Absent /\ e.file = Absent /\ e.dflt = "short" /\ e.eff = "off"
Undocumented(e) == e.cli = Absent /\ e.file = Absent /\ e.dflt = "?"
C16_Layer == At("layer") /\ ~F23(E) /\ ~Undocumented(E) => E.eff = Layer(E.cli, E.file, E.dflt)
KF_C16    == At("layer") /\ F23(E) => PrintT(<<"KNOWN-FINDING", "C16", "F23", l - 1>>)
\* every value used by the driver is valid in its context: a rejection means one option's handling depends on
\* how another one was given
C16_NoReject == ~At("layer_rej")

\* an accepted configuration executes its rounds: no panic, no livelock
C16_Runs == At("end") => ~E.panic /\ ~E.aborted

\* conformance (drift only): the stage at which the implementation rejects equals the model's
Proj(c) == [proto |-> c.proto, strat |-> c.strat, ports |-> c.ports, priv |-> c.priv, first |-> c.first_ttl, max |-> c.max_ttl,
            inflight |-> c.max_inflight, initseq |-> c.init_seq, psize |-> c.psize, fam |-> c.fam]
Class(r) == IF r = "ok" THEN "run"
            ELSE IF SubSeq(r, 1, 10) = "build-err:" THEN "reject-builder"
            ELSE IF r \in {"err:packet-size", "err:bad-config"} THEN "reject-start"
            ELSE "other"
C16_Outcome == At("end") /\ cf.e = "cfg" /\ ~E.panic => Class(E.result) = Outcome(Proj(cf))

Accepted == IF TLCGet("stats").diameter - 1 = N THEN TRUE
            ELSE Print(<<"TRACE-NOT-CONSUMED", TLCGet("stats").diameter - 1, N>>, FALSE)
=============================================================================
