SPECIFICATION Spec
CHECK_DEADLOCK FALSE
POSTCONDITION Accepted
INVARIANT C16_Layer
INVARIANT KF_C16
INVARIANT C16_NoReject
INVARIANT C16_Runs
