------------------------------- MODULE MonLoop -------------------------------
(***************************************************************************)
(* Property monitors for the probe-round loop of trippy (C01 C03 C06 C08   *)
(* C09 C10), as a trace specification.                                      *)
(*                                                                          *)
(* The trace is the ndjson event log written by the harness while the REAL  *)
(* Builder -> Tracer -> Strategy -> Channel -> State run over the simulated *)
(* socket and the virtual clock.  One state per consumed line.  The ghost   *)
(* record g is recomputed here from SIMULATOR GROUND TRUTH only (what was   *)
(* put on the wire, which response was handed to the tracer and when);      *)
(* every clause compares ghosts with what the tracer PUBLISHED.  The single *)
(* exception is C03_NoOp, which uses the hook-logged projection of the      *)
(* private bookkeeping because the property is about that bookkeeping.      *)
(*                                                                          *)
(* p is the ghost record before the event at Rec[l-1], g the one after.     *)
(***************************************************************************)
EXTENDS Integers, Sequences, FiniteSets, TLC, Json, IOUtils, SequencesExt

W == INSTANCE Wire

Rec == ndJsonDeserialize(IOEnv.TRACE)
N   == Len(Rec)

VARIABLES l, g, p
vars == <<l, g, p>>

Max2(a, b) == IF a >= b THEN a ELSE b
Min2(a, b) == IF a <= b THEN a ELSE b
MinNZ(a, b) == IF a = 0 THEN b ELSE IF b = 0 THEN a ELSE Min2(a, b)

NoiseLabels == {"dup", "late", "foreign", "never", "garbage"}

G0 == [ cfg |-> [e |-> "none"], run |-> 0, pubs |-> 0, roundStart |-> 0,
        wire |-> <<>>, ans |-> <<>>, farthest |-> 0, tgtNow |-> FALSE, lastRecv |-> -1,
        est |-> 0, estMax |-> 0, estD |-> FALSE, everAns |-> FALSE,
        acc |-> <<>>, lowest |-> 0, maxLargest |-> 0, lastLargest |-> 0,
        lastSt |-> [e |-> "none"], stBefore |-> [e |-> "none"], lastDlv |-> "",
        lastWire |-> [k |-> -1], ended |-> FALSE, failedSeen |-> 0, inuseSeen |-> 0, known |-> 0,
        fl |-> <<>>, fresh |-> FALSE, lastLow |-> 0, lastProbed |-> {} ]

(***************************************************************************)
(* Ghost updates                                                           *)
(***************************************************************************)
ZeroAcc == [sent |-> 0, recv |-> 0, failed |-> 0]
AccOf(acc, ttl) == IF ttl \in DOMAIN acc THEN acc[ttl] ELSE ZeroAcc

AccAdd(acc, pr) ==
    IF pr.st \in {"C", "A", "F"}
    THEN LET a == AccOf(acc, pr.ttl)
             b == [sent   |-> a.sent + 1,
                   recv   |-> a.recv + (IF pr.st = "C" THEN 1 ELSE 0),
                   failed |-> a.failed + (IF pr.st = "F" THEN 1 ELSE 0)]
         IN  [x \in (DOMAIN acc) \cup {pr.ttl} |-> IF x = pr.ttl THEN b ELSE acc[x]]
    ELSE acc

LowestOf(lo, pr) == IF pr.st \in {"C", "A", "F"} THEN MinNZ(lo, pr.ttl) ELSE lo

TargetTtls(gg) == {gg.ans[k].ttl : k \in {x \in DOMAIN gg.ans : gg.ans[x].tgt}}
SetMin(S) == CHOOSE x \in S : \A y \in S : x <= y
SetMax(S) == CHOOSE x \in S : \A y \in S : x >= y

Flow0 == [lo |-> 0, hi |-> 0, last |-> 0, rc |-> 0, pr |-> {}]
FlowOf(fl, id) == IF id \in DOMAIN fl THEN fl[id] ELSE Flow0

Step(gg, e) ==
    CASE e.e = "cfg" ->
            [G0 EXCEPT !.cfg = e, !.run = gg.run + 1, !.roundStart = e.t, !.known = gg.known]
      [] e.e = "send" ->
            [gg EXCEPT !.wire = Append(@, [k |-> e.k, seq |-> e.seq, ttl |-> e.ttl, t |-> e.t,
                                           out |-> e.out, reissue |-> e.reissue]),
                       !.failedSeen = @ + (IF e.out = "failed" THEN 1 ELSE 0),
                       !.inuseSeen  = @ + (IF e.out = "inuse" THEN 1 ELSE 0)]
      [] e.e = "dlv" ->
            IF e.label = "genuine"
            THEN [gg EXCEPT !.ans = (e.k :> [from |-> e.from, kind |-> e.kind, t |-> e.t,
                                             tgt |-> e.tgt, ttl |-> e.ttl, xt_has |-> e.xt_has, xt |-> e.xt]) @@ @,
                            !.farthest = Max2(@, e.ttl),
                            !.tgtNow = @ \/ e.tgt,
                            !.lastRecv = e.t,
                            !.everAns = TRUE,
                            !.lastDlv = e.label,
                            !.stBefore = gg.lastSt]
            ELSE [gg EXCEPT !.lastDlv = e.label, !.stBefore = gg.lastSt]
      [] e.e = "st" ->
            [gg EXCEPT !.lastSt = e, !.lastDlv = ""]
      [] e.e = "wire" ->
            [gg EXCEPT !.lastWire = e]
      [] e.e = "pub" ->
            LET tt == TargetTtls(gg) IN
            [gg EXCEPT !.acc = FoldLeft(AccAdd, @, e.probes),
                       !.lowest = FoldLeft(LowestOf, @, e.probes),
                       !.maxLargest = Max2(@, e.largest),
                       !.lastLargest = e.largest,
                       !.lastLow = FoldLeft(LowestOf, 0, e.probes),
                       !.lastProbed = {e.probes[i].ttl : i \in {j \in 1..Len(e.probes) : e.probes[j].st \in {"C", "A", "F"}}},
                       !.fresh = TRUE,
                       !.est = IF tt = {} THEN @ ELSE MinNZ(@, SetMin(tt)),
                       !.estMax = IF tt = {} THEN @ ELSE Max2(@, SetMax(tt)),
                       !.estD = @ \/ (gg.cfg.dist \in tt),
                       !.pubs = @ + 1,
                       !.roundStart = e.t,
                       !.wire = <<>>, !.ans = <<>>, !.farthest = 0,
                       !.tgtNow = FALSE, !.lastRecv = -1]
      [] e.e = "snap" ->
            \* the per-flow view: the latest round is folded into the flow it was attributed to (the flow's round
            \* count moved), with the same path length the round reported for the default flow
            IF gg.fresh /\ "frc" \in DOMAIN e /\ e.round_flow > 0 /\ e.frc = FlowOf(gg.fl, e.round_flow).rc + 1
            THEN LET o == FlowOf(gg.fl, e.round_flow)
                     n == [lo |-> MinNZ(o.lo, gg.lastLow), hi |-> Max2(o.hi, gg.lastLargest), last |-> gg.lastLargest,
                           rc |-> o.rc + 1, pr |-> o.pr \cup gg.lastProbed]
                 IN  [gg EXCEPT !.fl = (e.round_flow :> n) @@ @, !.fresh = FALSE]
            ELSE [gg EXCEPT !.fresh = FALSE]
      [] e.e = "end" -> [gg EXCEPT !.ended = TRUE]
      [] OTHER -> gg

Init == l = 1 /\ g = G0 /\ p = G0
Next == /\ l <= N
        /\ l' = l + 1
        /\ p' = g
        /\ g' = Step(g, Rec[l])
Spec == Init /\ [][Next]_vars

E == Rec[l - 1]          \* the event just consumed (defined when l > 1)
At(tag) == l > 1 /\ E.e = tag
Cfg == p.cfg

(***************************************************************************)
(* C06  scheduling discipline                                              *)
(***************************************************************************)
NonReissued(w) == Cardinality({i \in DOMAIN w : ~w[i].reissue})

C06_Order   == At("send") =>
                 IF E.reissue /\ Len(p.wire) > 0
                 THEN E.ttl = p.wire[Len(p.wire)].ttl
                 ELSE E.ttl = Cfg.first_ttl + NonReissued(p.wire)
C06_Limit   == At("send") => E.ttl <= Cfg.max_ttl /\ E.ttl >= 1
C06_Target  == At("send") => ~p.tgtNow
C06_Known   == At("send") /\ Cfg.stable /\ p.est > 0 => E.ttl <= p.est
\* "<=" is what the property states (the code enforces "<")
\* before anything has answered the window is anchored at first-ttl - 1 (otherwise the clause would
\* contradict "every round sends at least the first-ttl probe" whenever first-ttl > max-inflight)
C06_Window  == At("send") => \/ E.ttl - Max2(p.farthest, Cfg.first_ttl - 1) <= Cfg.max_inflight
                             \/ E.ttl <= p.estMax
\* every round sends at least the first-ttl probe (F8, fixed: see known_findings.jsonl)
C06_Live    == At("pub") => Len(p.wire) >= 1

(***************************************************************************)
(* C08  round timing                                                       *)
(***************************************************************************)
Dur == E.t - p.roundStart
C08_Allowed == At("pub") =>
                 \/ Dur > Cfg.max_round
                 \/ /\ p.tgtNow
                    /\ Dur > Cfg.min_round
                    /\ p.lastRecv >= 0 /\ E.t - p.lastRecv > Cfg.grace
C08_Reason  == At("pub") =>
                 /\ E.reason = "tf" => p.tgtNow
                 /\ ~p.tgtNow => E.reason = "tl"
                 /\ (E.reason = "tl" /\ p.tgtNow) => Dur > Cfg.max_round
C08_Held    == At("pub") => Dur <= Cfg.max_round + Cfg.read_timeout + Cfg.eps
\* the next round starts at the instant of publication: nothing of the new round predates it
C08_Start   == At("send") => E.t >= p.roundStart
\* binding of the ghost to the code's own notion of the round start (hook)
C08_StartHook == At("st") /\ E.round = p.pubs => E.rs = p.roundStart

(***************************************************************************)
(* C01  published outcomes = ground truth                                   *)
(***************************************************************************)
SlotOK(pr, w, ans) ==
    CASE w.out = "inuse"  -> pr.st = "S"
      [] w.out = "failed" -> pr.st = "F" /\ pr.seq = w.seq /\ pr.ttl = w.ttl
      [] w.out = "ok" ->
            IF w.k \in DOMAIN ans
            THEN /\ pr.st = "C" /\ pr.seq = w.seq /\ pr.ttl = w.ttl
                 /\ pr.host = ans[w.k].from
                 /\ pr.kind = (IF ans[w.k].kind \in {"syn", "rst"} THEN "na" ELSE ans[w.k].kind)
                 /\ pr.rtt = ans[w.k].t - w.t
                 /\ pr.sent = w.t /\ pr.recv = ans[w.k].t
            ELSE pr.st = "A" /\ pr.seq = w.seq /\ pr.ttl = w.ttl
      [] OTHER -> FALSE     \* a fatal send outcome ends the run; it is never published

C01_Slots == At("pub") => Len(E.probes) = Len(p.wire)
C01_Exact == At("pub") /\ Len(E.probes) = Len(p.wire) =>
               \A i \in 1..Len(E.probes) : SlotOK(E.probes[i], p.wire[i], p.ans)
C01_RoundNo == At("pub") => \A i \in 1..Len(E.probes) :
                 E.probes[i].st \in {"C", "A", "F"} => E.probes[i].round = p.pubs
C01_Totals == At("snap") => \A i \in 1..Len(E.hops) :
                 LET h == E.hops[i] a == AccOf(p.acc, h.ttl) IN
                 h.ttl > 0 => h.sent = a.sent /\ h.recv = a.recv /\ h.failed = a.failed
\* nothing probed is missing from the table
C01_TotalsCover == At("snap") => \A t \in DOMAIN p.acc :
                 (p.maxLargest >= t) => \E i \in 1..Len(E.hops) : E.hops[i].ttl = t

(***************************************************************************)
(* C03  only genuine current-round responses change anything               *)
(***************************************************************************)
Proj(s) == <<s.seq, s.rseq, s.ttl, s.round, s.tf, s.mrt, s.tt, s.rt, s.sc, s.bc>>
C03_Changed == At("st") /\ E.after_dlv /\ p.lastDlv \in NoiseLabels /\ p.stBefore.e = "st"
                 /\ Proj(E) # Proj(p.stBefore)
\* (F5 - a never-sent sequence completing a stale slot of an earlier round - is fixed; nothing is excused)
C03_NoOp    == ~C03_Changed
\* genuine responses are the only way the bookkeeping advances
C03_Genuine == At("st") /\ E.after_dlv /\ p.lastDlv = "genuine" /\ p.stBefore.e = "st" =>
                 /\ E.tf = (p.tgtNow)
                 /\ E.mrt = p.farthest
                 /\ E.rt = p.lastRecv

(***************************************************************************)
(* C09  termination, round count, failure semantics                         *)
(***************************************************************************)
\* the failure kinds the implementation treats as transient, per configuration cell
Transient(c, f) ==
    \/ c.fam = 4 /\ c.proto = "icmp" /\ f.op = "send_to" /\ f.kind \in {"hostunreach", "netunreach", "invalid"}
    \/ c.fam = 4 /\ c.proto = "udp" /\ c.priv /\ f.op = "send_to" /\ f.kind \in {"hostunreach", "netunreach"}
    \/ c.fam = 4 /\ c.proto = "udp" /\ ~c.priv /\ f.op = "bind" /\ f.kind = "addrnotavail"
    \/ c.fam = 4 /\ c.proto = "tcp" /\ f.op = "bind" /\ f.kind = "addrnotavail"
    \/ c.fam = 4 /\ c.proto = "tcp" /\ f.op = "connect" /\ f.kind = "netunreach"
InUse(c, f)  == c.proto = "tcp" /\ f.op \in {"bind", "connect"} /\ f.kind = "addrinuse"
Harmless(c, f) == f.kind = "wouldblock" /\ f.op \in {"read", "recv_from"}
Fatal(c, f)  == ~Transient(c, f) /\ ~InUse(c, f) /\ ~Harmless(c, f)

C09_PubOrder == At("pub") => E.idx = p.pubs /\ ~p.ended
C09_End == At("end") =>
             LET fatal == {i \in 1..Len(E.fired) : Fatal(Cfg, E.fired[i])} IN
             IF fatal = {}
             THEN E.result = "ok" /\ E.pubs = Cfg.max_rounds /\ p.pubs = Cfg.max_rounds /\ ~E.snap_err
             ELSE /\ E.result \in {"err:io", "err:addr-in-use"}
                  /\ E.snap_err
                  /\ p.pubs < Cfg.max_rounds
\* a transient failure is reported as such (out = "failed") and an address-in-use as "inuse"
C09_Classify == At("end") =>
             /\ Cardinality({i \in 1..Len(E.fired) : Transient(Cfg, E.fired[i])}) = p.failedSeen
             /\ Cfg.proto = "tcp" =>
                  Cardinality({i \in 1..Len(E.fired) : InUse(Cfg, E.fired[i])}) = p.inuseSeen
\* re-issue: next sequence number, same TTL
C09_Reissue == At("send") /\ Len(p.wire) > 0 /\ p.wire[Len(p.wire)].out = "inuse" =>
                 /\ E.reissue
                 /\ E.seq = p.wire[Len(p.wire)].seq + 1
                 /\ E.ttl = p.wire[Len(p.wire)].ttl
C09_NoPanic == At("end") => ~E.panic /\ ~E.aborted

\* C07 (full stack): exhausting the round's sequence budget by TCP port collisions ends the run with
\* a capacity error, not with a panic / out-of-bounds access
C07_Storm == At("end") /\ Cfg.storm /\ Len(E.fired) > 0 => E.result = "err:capacity" /\ ~E.panic /\ E.snap_err
C07_StormSeq == At("send") => E.seq < 65535 /\ (Len(p.wire) > 0 => E.seq = p.wire[Len(p.wire)].seq + 1)

(***************************************************************************)
(* C14 (end to end): the extension objects reported for a completed probe   *)
(* are exactly those the responding router encoded (ground truth)           *)
(***************************************************************************)
C14_E2E == At("pub") /\ Len(E.probes) = Len(p.wire) =>
    \A i \in 1..Len(E.probes) :
        LET pr == E.probes[i] w == p.wire[i] IN
        (pr.st = "C" /\ w.k \in DOMAIN p.ans) =>
            LET a == p.ans[w.k] IN
            IF Cfg.ext
            THEN /\ a.xt_has => pr.has_ext /\ pr.ext = (IF a.xt = <<>> THEN <<>> ELSE <<[mpls |-> a.xt]>>)
                 /\ ~a.xt_has => pr.ext = <<>>
            ELSE ~pr.has_ext

(***************************************************************************)
(* C11  every probe put on the wire is well-formed and as configured         *)
(* (the wire event is the independent decoder's reading of the bytes handed *)
(* to the send socket, completed by the kernel headers where the tracer     *)
(* supplies none; the expectation is the Wire!Encode table)                  *)
(***************************************************************************)
PatternOK(w) == w.pattern = Cfg.pattern \/ w.pattern = -2
C11_Wire == At("send") /\ E.wire /\ p.lastWire.k = E.k =>
    LET x == W!Encode(Cfg, [seq |-> E.seq, ttl |-> E.ttl, round |-> E.round])
        w == p.lastWire
    IN  /\ w.decoded /\ w.dst_is_target /\ w.src_is_src
        /\ w.ttl = E.ttl /\ w.fam = Cfg.fam
        /\ Cfg.fam = 4 => w.tos = Cfg.tos /\ w.df
        /\ w.ok_len
        /\ E.sport = x.sport /\ E.dport = x.dport
        /\ CASE Cfg.proto = "icmp" ->
                  /\ w.proto = (IF Cfg.fam = 4 THEN 1 ELSE 58)
                  /\ w.icmp_type = (IF Cfg.fam = 4 THEN 8 ELSE 128) /\ w.icmp_code = 0
                  /\ w.icmp_id = Cfg.trace_id /\ w.icmp_seq = E.seq /\ E.id = Cfg.trace_id
                  /\ w.total_len = Cfg.psize /\ PatternOK(w) /\ w.ok_l4_sum
             [] Cfg.proto = "udp" ->
                  /\ w.proto = 17 /\ w.sport = x.sport /\ w.dport = x.dport
                  /\ w.udp_len = x.udplen /\ w.ok_l4_sum
                  /\ Cfg.strat = "paris" => w.udp_sum = E.seq /\ w.payload_len = 2
                  /\ (Cfg.strat = "dublin" /\ Cfg.fam = 4) => w.ip_id = E.seq
                  /\ (Cfg.strat = "dublin" /\ Cfg.fam = 6) => w.magic /\ w.payload_len = x.paylen /\ PatternOK(w)
                  /\ (Cfg.strat = "classic" \/ (Cfg.strat = "dublin" /\ Cfg.fam = 4)) => w.total_len = Cfg.psize /\ PatternOK(w)
             [] OTHER ->
                  /\ w.proto = 6 /\ w.syn /\ w.sport = x.sport /\ w.dport = x.dport
\* every successful send put exactly one datagram on the wire
C11_OneDatagram == At("send") /\ E.out = "ok" => E.wire /\ p.lastWire.k = E.k

(***************************************************************************)
(* C10  hop table                                                          *)
(***************************************************************************)
C10_Shape == At("snap") =>
    IF p.lowest = 0 \/ p.maxLargest = 0
    THEN Len(E.hops) = 0
    ELSE /\ Len(E.hops) = Max2(0, p.maxLargest - p.lowest + 1)
         /\ \A i \in 1..Len(E.hops) :
              LET t == p.lowest + i - 1 IN
              IF t \in DOMAIN p.acc THEN E.hops[i].ttl = t ELSE E.hops[i].ttl = 0
C10_Target == At("snap") =>
    /\ (p.lastLargest > 0 /\ p.lastLargest \in DOMAIN p.acc) => E.tgt_ttl = p.lastLargest
    /\ \A i \in 1..Len(E.hops) : E.hops[i].ttl > 0 =>
          /\ E.hops[i].is_tgt = (E.hops[i].ttl = p.lastLargest)
          /\ E.hops[i].in_round = (E.hops[i].ttl <= p.lastLargest)
    /\ E.rc = p.pubs
C10_Distance == At("pub") /\ Cfg.stable /\ (p.estD \/ Cfg.dist \in TargetTtls(p)) => E.largest = Cfg.dist
C10_Nothing  == At("pub") /\ ~p.everAns => E.largest = 0
\* the path length a round reports is the TTL of a probe of that round (never a hop beyond what was probed)
\* (once the target's distance is known from an earlier round it is reported even if this round ended before reaching
\* it: then it is the TTL of a probe of an earlier round)
C10_Probed   == At("pub") /\ E.largest > 0 =>
                  /\ E.largest <= Cfg.max_ttl
                  /\ \/ \E i \in 1..Len(p.wire) : p.wire[i].ttl = E.largest
                     \/ E.largest \in DOMAIN p.acc
\* the flow the latest round was attributed to shows the same window arithmetic as the default flow, over its own rounds
C10_Flow == At("snap") /\ "fhops" \in DOMAIN E /\ E.round_flow > 0 =>
    LET f == FlowOf(g.fl, E.round_flow) IN
    /\ E.frc = f.rc
    /\ IF f.lo = 0 \/ f.hi = 0
       THEN Len(E.fhops) = 0
       ELSE /\ Len(E.fhops) = Max2(0, f.hi - f.lo + 1)
            /\ \A i \in 1..Len(E.fhops) :
                 LET t == f.lo + i - 1 IN
                 /\ E.fhops[i].ttl = (IF t \in f.pr THEN t ELSE 0)
                 /\ E.fhops[i].ttl > 0 => /\ E.fhops[i].is_tgt = (t = f.last)
                                          /\ E.fhops[i].in_round = (t <= f.last)
    /\ (f.last > 0 /\ f.last \in f.pr) => E.ftgt_ttl = f.last
\* a route change to a responsive path of another length: from the round after the change the reported length is the
\* new distance (scenarios of the grow family: nothing lost, rounds long enough to walk the whole path)
C10_Regrow == At("pub") /\ Cfg.regrow /\ E.idx > Cfg.change_round => E.largest = Cfg.dist_after
C10_NoPanic  == C09_NoPanic

(***************************************************************************)
(* Acceptance: the whole trace was consumed                                 *)
(***************************************************************************)
Accepted == IF TLCGet("stats").diameter - 1 = N THEN TRUE
            ELSE Print(<<"TRACE-NOT-CONSUMED", TLCGet("stats").diameter - 1, N>>, FALSE)

=============================================================================
