SPECIFICATION Spec
CHECK_DEADLOCK FALSE
POSTCONDITION Accepted
INVARIANT C17_NoPanic
INVARIANT C17_Selection
INVARIANT C17_NoHang
INVARIANT KF_C17
INVARIANT C17_Settings
INVARIANT C17_Columns
INVARIANT C17_HostsLimit
