------------------------------- MODULE MonFuzz -------------------------------
(* C04 monitor over the aggregated results of the receive-path and accessor sweeps: one event per
   configuration / view type with the number of inputs, the outcome classes and every panic site. *)
EXTENDS Integers, Sequences, TLC, Json, IOUtils
Rec == ndJsonDeserialize(IOEnv.TRACE)
N   == Len(Rec)
VARIABLES l
Init == l = 1
Next == l <= N /\ l' = l + 1
Spec == Init /\ [][Next]_l
E == Rec[l - 1]
At(tag) == l > 1 /\ E.e = tag
\* every input returned (a response, nothing, or an error value): no panic, no arithmetic overflow,
\* no non-terminating iteration (the driver turns > 4096 iterations into a panic)
C04_NoPanic == At("fz") => E.panics = 0 /\ Len(E.sites) = 0
C04_Ran     == At("fz") => E.n > 0
\* the receive path classifies: responses, nothing, or an error value
C04_Classes == (At("fz") /\ E.target = "recv") => E.some + E.none + E.errs + E.panics = E.n
Accepted == IF TLCGet("stats").diameter - 1 = N THEN TRUE
            ELSE Print(<<"TRACE-NOT-CONSUMED", TLCGet("stats").diameter - 1, N>>, FALSE)
=============================================================================
