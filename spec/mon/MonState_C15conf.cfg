SPECIFICATION Spec
CHECK_DEADLOCK FALSE
POSTCONDITION Accepted
INVARIANT C15_Registry
