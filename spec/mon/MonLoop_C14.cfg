SPECIFICATION Spec
CHECK_DEADLOCK FALSE
POSTCONDITION Accepted
INVARIANT C14_E2E
INVARIANT C01_Slots
INVARIANT C01_Exact
INVARIANT C09_NoPanic
