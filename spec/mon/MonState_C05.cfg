SPECIFICATION Spec
CHECK_DEADLOCK FALSE
POSTCONDITION Accepted
INVARIANT C05_Exact
INVARIANT C05_Derived
INVARIANT C05_StdDev
INVARIANT C05_Laws
INVARIANT C10_Window
INVARIANT NoPanic
