SPECIFICATION Spec
CHECK_DEADLOCK FALSE
POSTCONDITION Accepted
INVARIANT C06_Order
INVARIANT C06_Limit
INVARIANT C06_Target
INVARIANT C06_Known
INVARIANT C06_Window
INVARIANT C06_Live
