------------------------------- MODULE MonSnap -------------------------------
(***************************************************************************)
(* C20 monitor: linearizability of the recorded history of round            *)
(* applications (a0/a1), snapshots (s0/s1) and clears (c0/c1) against the   *)
(* abstract state: cnt = rounds applied since the last clear, err = the      *)
(* tracer has failed (f0/f1: the error hand-off) since the last clear.       *)
(*                                                                          *)
(* Events are totally ordered by a process-wide atomic sequence number      *)
(* taken before a call starts and after it returns, so if one call's end    *)
(* precedes another's start in the log, it did so in real time.  Between    *)
(* its start and its end every call takes effect at ONE silent step (Lin):  *)
(* an application increments cnt, a clear resets it, a snapshot observes    *)
(* it.  A snapshot's end event is accepted only if every count in it (the   *)
(* default flow's rounds, every hop's probes sent, every flow's rounds and  *)
(* hops) equals the observed cnt - i.e. the snapshot is exactly cnt whole   *)
(* identical rounds applied to an empty state.  TLC searches all placements *)
(* of the silent steps; the history is linearizable iff some behaviour      *)
(* consumes the whole log (postcondition Linearizable).                     *)
(***************************************************************************)
EXTENDS Integers, Sequences, FiniteSets, TLC, Json, IOUtils

Rec == ndJsonDeserialize(IOEnv.TRACE)
N   == Len(Rec)

VARIABLES l, cnt, err, pend
vars == <<l, cnt, err, pend>>
\* pend: tid -> [kind, lin, val] for calls that have started and not yet ended

Start(e) == e.e \in {"a0", "s0", "c0", "f0"}
EndEv(e) == e.e \in {"a1", "s1", "c1", "f1"}
KindOf(e) == IF e.e \in {"a0", "a1"} THEN "apply" ELSE IF e.e \in {"s0", "s1"} THEN "snap"
             ELSE IF e.e \in {"f0", "f1"} THEN "fail" ELSE "clear"

\* every count in the digest equals v
Uniform(d, v) ==
    /\ d.rc0 = v
    /\ \A i \in 1..Len(d.sent) : d.sent[i] = v
    /\ v = 0 => Len(d.sent) = 0 /\ Len(d.flows) = 0
    /\ v > 0 => Len(d.flows) = 1
    /\ \A i \in 1..Len(d.flows) : d.flows[i].rc = v /\ \A j \in 1..Len(d.flows[i].sent) : d.flows[i].sent[j] = v

Init == TLCSet(1, 0) /\ l = 1 /\ cnt = 0 /\ err = FALSE /\ pend = <<>>

Consume ==
    /\ l <= N
    /\ LET e == Rec[l] IN
       CASE e.e = "run" -> l' = l + 1 /\ cnt' = 0 /\ err' = FALSE /\ pend' = <<>>
         [] Start(e)    -> /\ l' = l + 1 /\ cnt' = cnt /\ err' = err
                           /\ pend' = [x \in (DOMAIN pend) \cup {e.tid} |->
                                         IF x = e.tid THEN [kind |-> KindOf(e), lin |-> FALSE, val |-> -1, verr |-> FALSE] ELSE pend[x]]
         [] EndEv(e)    -> /\ e.tid \in DOMAIN pend /\ pend[e.tid].lin
                           /\ (e.e = "s1" => Uniform(e.d, pend[e.tid].val) /\ e.d.err = pend[e.tid].verr)
                           /\ l' = l + 1 /\ cnt' = cnt /\ err' = err
                           /\ pend' = [x \in (DOMAIN pend) \ {e.tid} |-> pend[x]]
         [] OTHER       -> l' = l + 1 /\ UNCHANGED <<cnt, err, pend>>

Lin(t) ==
    /\ t \in DOMAIN pend /\ ~pend[t].lin
    /\ l' = l
    /\ CASE pend[t].kind = "apply" -> cnt' = cnt + 1 /\ err' = err /\ pend' = [pend EXCEPT ![t].lin = TRUE]
         [] pend[t].kind = "clear" -> cnt' = 0 /\ err' = FALSE /\ pend' = [pend EXCEPT ![t].lin = TRUE]
         [] pend[t].kind = "fail"  -> cnt' = cnt /\ err' = TRUE /\ pend' = [pend EXCEPT ![t].lin = TRUE]
         [] OTHER                  -> cnt' = cnt /\ err' = err /\ pend' = [pend EXCEPT ![t].lin = TRUE, ![t].val = cnt, ![t].verr = err]

Next == Consume \/ \E t \in DOMAIN pend : Lin(t)
Spec == Init /\ [][Next]_vars

\* furthest line reached by any behaviour (needs -workers 1)
Progress == TLCSet(1, IF TLCGet(1) > l THEN TLCGet(1) ELSE l)
InitReg == TLCSet(1, 0)
Linearizable == IF TLCGet(1) = N + 1 THEN TRUE
                ELSE Print(<<"NOT-LINEARIZABLE-AT", TLCGet(1), N>>, FALSE)
=============================================================================
