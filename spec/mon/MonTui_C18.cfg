SPECIFICATION Spec
CHECK_DEADLOCK FALSE
POSTCONDITION Accepted
INVARIANT C18_Hidden
INVARIANT C18_Shown
INVARIANT C18_Step
INVARIANT C17_NoPanic
INVARIANT KF_C18
