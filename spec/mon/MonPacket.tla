------------------------------ MODULE MonPacket ------------------------------
(* C12 / C13 monitor over the log of set/get, constructor and checksum calls on the real codec. *)
EXTENDS Integers, Sequences, FiniteSets, TLC, Json, IOUtils

L  == INSTANCE Layout
CK == INSTANCE Checksum

Rec == ndJsonDeserialize(IOEnv.TRACE)
N   == Len(Rec)
VARIABLES l
Init == l = 1
Next == l <= N /\ l' = l + 1
Spec == Init /\ [][Next]_l

E == Rec[l - 1]
At(tag) == l > 1 /\ E.e = tag

SpecOf(e) == L!Fields[e.ty][e.f]
Trunc(e) == e.v % (2 ^ e.w)
\* writing then reading yields the value truncated to the field's width
C12_Get == At("fld") => IF E.bytes THEN E.got = E.v ELSE E.got = Trunc(E)
\* the write changes exactly the bits the RFC assigns to the field, nothing else
C12_Set == At("fld") => E.after = (IF E.bytes THEN L!SetBytes(E.before, SpecOf(E), E.v) ELSE L!SetInt(E.before, SpecOf(E), Trunc(E)))
C12_Frame == At("fld") => E.tail_same /\ E.ro_same /\ Len(E.after) = Len(E.before) /\ E.w = SpecOf(E)[3]
C12_Ctor == At("ctor") => E.ok_new = (E.len >= L!MinSize[E.ty]) /\ E.ok_view = (E.len >= L!MinSize[E.ty])
C12_Total == ~At("fld_panic") /\ ~At("fld_unsupported")

\* the computed checksum is the RFC 1071 checksum over (pseudo header and) data with a zero checksum
\* field, and the datagram with the checksum inserted sums to 0xFFFF
C13_Value == At("ck") => E.sum = CK!Rfc1071(E.words)
C13_Verifies == At("ck") => CK!Verifies([i \in 1..Len(E.words) |-> IF i = E.ck_word + 1 THEN E.sum ELSE E.words[i]])
\* Paris: the checksum field carries the sequence and the datagram still verifies
C13_Paris == At("paris") => E.udp_sum = E.seq /\ E.ok_l4_sum /\ (Len(E.words) > 0 => CK!Verifies(E.words))
NoPanic == At("end") => ~E.panic

Accepted == IF TLCGet("stats").diameter - 1 = N THEN TRUE
            ELSE Print(<<"TRACE-NOT-CONSUMED", TLCGet("stats").diameter - 1, N>>, FALSE)
=============================================================================
