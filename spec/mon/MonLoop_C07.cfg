SPECIFICATION Spec
CHECK_DEADLOCK FALSE
POSTCONDITION Accepted
INVARIANT C07_Storm
INVARIANT C07_StormSeq
INVARIANT C09_Reissue
INVARIANT C06_Order
INVARIANT C09_NoPanic
