SPECIFICATION Spec
CHECK_DEADLOCK FALSE
POSTCONDITION Accepted
INVARIANT C19_Status
INVARIANT C19_Truth
INVARIANT C19_Model
INVARIANT NoPanic
INVARIANT C19_FlowStatus
