SPECIFICATION Spec
CHECK_DEADLOCK FALSE
POSTCONDITION Accepted
INVARIANT C08_Allowed
INVARIANT C08_Reason
INVARIANT C08_Held
INVARIANT C08_Start
INVARIANT C08_StartHook
