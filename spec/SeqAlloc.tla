------------------------------ MODULE SeqAlloc ------------------------------
(***************************************************************************)
(* The sequence-number allocator of TracerState at the REAL constants      *)
(* (u16::MAX = 65535, 512 sequence numbers per round), abstracted to what  *)
(* matters between rounds: the round-start sequence and the number of      *)
(* sequence numbers the round consumed.  Uses the same operators as the    *)
(* full model (TracerOps!MaxSequence, the wrap rule of AdvanceRound).      *)
(*                                                                          *)
(* A round consumes k sequence numbers: at most MaxPerRound.  For ICMP/UDP  *)
(* that is the number of TTLs (<= 254, one per loop iteration, bounded by   *)
(* max-ttl); for TCP every address-in-use collision consumes one more, up   *)
(* to the 512-slot budget, after which the run ends with a capacity error.  *)
(***************************************************************************)
EXTENDS Integers, TLC

CONSTANTS InitSeqs,      \* set of initial sequences explored
          Regimes,       \* subset of {"general", "dublin6"}
          Sizes,         \* round sizes explored (numbers of sequence numbers consumed)
          MaxPerRound    \* 254 (ICMP / UDP) or 512 (TCP)

BufferSize == 512
U16Max     == 65535
MaxUdpPayloadV6 == 1024 - 40 - 8     \* MAX_UDP_PAYLOAD_BUF in net/ipv6.rs
MagicLen   == 6

Ops == INSTANCE TracerOps

VARIABLES init, regime, rseq, size, prevLo, prevHi, pc
vars == <<init, regime, rseq, size, prevLo, prevHi, pc>>

C == [bufferSize |-> BufferSize, u16Max |-> U16Max, initSeq |-> init, dublin6 |-> (regime = "dublin6")]

Init == /\ init \in InitSeqs /\ regime \in Regimes
        /\ rseq = init /\ size = 0 /\ prevLo = 0 /\ prevHi = 0 /\ pc = "run"

\* a round that consumes k sequence numbers, then advance_round()
Round(k) ==
    /\ pc = "run" /\ k \in Sizes /\ k <= MaxPerRound
    /\ LET seq == rseq + k
           nxt == IF seq >= Ops!MaxSequence(C) THEN init ELSE seq
       IN  /\ prevLo' = rseq /\ prevHi' = seq
           /\ rseq' = nxt
    /\ size' = k
    /\ UNCHANGED <<init, regime, pc>>

\* TCP only: the budget of the round is exhausted by collisions -> InsufficientCapacity, the run ends
Exhaust == /\ pc = "run" /\ MaxPerRound = BufferSize
           /\ pc' = "capacity-error"
           /\ UNCHANGED <<init, regime, rseq, size, prevLo, prevHi>>

Next == (\E k \in Sizes : Round(k)) \/ Exhaust
Spec == Init /\ [][Next]_vars

\* every sequence number a round starting here can issue
Issuable == rseq..(rseq + MaxPerRound - 1)

SeqBound          == rseq + MaxPerRound <= U16Max     \* the post-incremented counter never reaches 65536; issued < 65535
IssuedBelowMax    == \A q \in {rseq, rseq + MaxPerRound - 1} : q < U16Max
RoundFitsBuffer   == MaxPerRound <= BufferSize
ForwardOrRestart  == [][pc' = "run" => (rseq' = prevHi' \/ rseq' = init)]_vars
RestartOnlyAtMax  == [][pc' = "run" /\ rseq' # prevHi' => rseq' = init /\ prevHi' >= Ops!MaxSequence(C)]_vars
DublinPayloadFits == regime = "dublin6" => (rseq + MaxPerRound - 1 - init) + MagicLen <= MaxUdpPayloadV6
InitAllowed       == init <= U16Max - 2 * BufferSize
\* reading (a): the previous round's numbers are outside the acceptance window of in_round()
NoPrevInWindow    == prevHi > prevLo => \A q \in {prevLo, prevHi - 1} : ~(q >= rseq /\ q - rseq < BufferSize)
\* reading (b): no number of the previous round can be issued again in the current round, so a
\* delayed response to it can never be taken for a response to a current probe
NoPrevReissued    == prevHi > prevLo => (prevHi <= rseq \/ prevLo >= rseq + MaxPerRound)
\* as action properties (the history variables are hidden from the fingerprint by the VIEW)
NoPrevInWindowA   == [][NoPrevInWindow']_vars
NoPrevReissuedA   == [][NoPrevReissued']_vars
View == <<init, regime, rseq, pc>>
=============================================================================
