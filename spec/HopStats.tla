------------------------------ MODULE HopStats ------------------------------
(***************************************************************************)
(* Per-hop statistics aggregation of trippy-core (state.rs).               *)
(*                                                                          *)
(* Apply(fs, round)  - the INCREMENTAL update, shaped like StateUpdater     *)
(*                     (one probe at a time, per-round carry: forward-loss  *)
(*                     flag and previous-hop checksum).                     *)
(* Agg(rounds, ...)  - the DECLARATIVE re-aggregation: every figure is      *)
(*                     defined directly as a sum / min / max / selection    *)
(*                     over the whole history of rounds.                    *)
(* TLC checks Apply*(rounds) = Agg(rounds) and the conservation laws for    *)
(* all round sequences within bounds (spec/mc/MC_HopStats); the trace       *)
(* monitor (spec/mon/MonState) applies Apply to the rounds fed to the real  *)
(* State and compares every getter.                                         *)
(*                                                                          *)
(* A probe record: [st, ttl, rtt, host, seq, sport, dport, kind, tos, ext, eck,  *)
(* ack, round]; st \in {"C","A","F","S","N"}; times in integer microseconds.*)
(* Modelled as coded (pinned by the repository's scenario tests): the       *)
(* jitter of a hop's first sample is its round-trip time itself, so Javg    *)
(* and Jmax include it.                                                     *)
(***************************************************************************)
EXTENDS Integers, Sequences, FiniteSets, SequencesExt

Abs(x) == IF x < 0 THEN -x ELSE x
Max2(a, b) == IF a >= b THEN a ELSE b
Min2(a, b) == IF a <= b THEN a ELSE b

Hop0 == [ ttl |-> 0, sent |-> 0, recv |-> 0, failed |-> 0, fl |-> 0, bl |-> 0, total |-> 0,
          last |-> -1, best |-> -1, worst |-> -1, jit |-> -1, jmax |-> -1, jsum |-> 0,
          samples |-> <<>>, addrs |-> <<>>, lsport |-> 0, ldport |-> 0, lseq |-> 0,
          lkind |-> "none", tos |-> -1, ext |-> <<>>, nat |-> "na", sq |-> 0 ]

Flow0 == [ lowest |-> 0, highest |-> 0, highestRound |-> 0, round |-> -1, rc |-> 0, hops |-> <<>> ]
HopOf(fs, t) == IF t \in DOMAIN fs.hops THEN fs.hops[t] ELSE Hop0
SetHop(fs, t, h) == [fs EXCEPT !.hops = [x \in (DOMAIN fs.hops) \cup {t} |-> IF x = t THEN h ELSE fs.hops[x]]]

Live(pr) == pr.st \in {"C", "A", "F"}

(***************************************************************************)
(* is_forward_loss(): skip while ttl <= awaited ttl (or not sent/skipped); *)
(* what remains must be non-empty and all Awaited/Skipped                   *)
(***************************************************************************)
SkipIdx(probes, t) ==
    LET keep(i) == IF Live(probes[i]) THEN probes[i].ttl <= t ELSE TRUE
        cand == {i \in 1..Len(probes) : ~keep(i)}
    IN  IF cand = {} THEN Len(probes) + 1 ELSE CHOOSE i \in cand : \A j \in cand : i <= j
IsForwardLoss(probes, t) ==
    LET k == SkipIdx(probes, t) IN
    /\ k <= Len(probes)
    /\ \A i \in k..Len(probes) : probes[i].st \in {"A", "S"}

\* nat_status()
NatStatus(eck, ack, prev) ==
    IF prev >= 0 THEN (IF prev = ack THEN <<"no", prev>> ELSE <<"yes", ack>>)
    ELSE (IF eck = ack THEN <<"no", ack>> ELSE <<"yes", ack>>)

Push(samples, x, maxSamples) ==
    LET s1 == <<x>> \o samples IN
    IF Len(s1) > maxSamples THEN SubSeq(s1, 1, Len(s1) - 1) ELSE s1

AddAddr(addrs, host) ==
    IF \E i \in 1..Len(addrs) : addrs[i][1] = host
    THEN [i \in 1..Len(addrs) |-> IF addrs[i][1] = host THEN <<host, addrs[i][2] + 1>> ELSE addrs[i]]
    ELSE Append(addrs, <<host, 1>>)

(***************************************************************************)
(* Incremental: update_for_probe with the per-round carry k = [fwd, prev]  *)
(***************************************************************************)
ApplyProbe(fs, k, pr, probes, maxSamples) ==
    CASE pr.st = "C" ->
            LET h == HopOf(fs, pr.ttl)
                j == IF h.last >= 0 THEN Abs(pr.rtt - h.last) ELSE pr.rtt      \* |dur - last.unwrap_or(0)|
                hasNat == pr.eck >= 0 /\ pr.ack >= 0
                ns == NatStatus(pr.eck, pr.ack, k.prev)
                h1 == [h EXCEPT !.ttl = pr.ttl, !.sent = @ + 1, !.recv = @ + 1, !.total = @ + pr.rtt,
                                !.jit = IF h.last >= 0 THEN j ELSE -1,
                                !.jsum = @ + j,
                                !.jmax = IF @ < 0 THEN j ELSE Max2(@, j),
                                !.last = pr.rtt,
                                !.samples = Push(@, pr.rtt, maxSamples),
                                !.best = IF @ < 0 THEN pr.rtt ELSE Min2(@, pr.rtt),
                                !.worst = IF @ < 0 THEN pr.rtt ELSE Max2(@, pr.rtt),
                                !.addrs = AddAddr(@, pr.host),
                                !.lsport = pr.sport, !.ldport = pr.dport, !.lseq = pr.seq,
                                !.lkind = pr.kind, !.tos = pr.tos,
                                !.ext = pr.ext,        \* the extensions of the latest response, none included
                                !.nat = IF hasNat THEN ns[1] ELSE @,
                                !.sq = IF @ >= 0 /\ pr.rtt <= 10000 THEN @ + pr.rtt * pr.rtt ELSE -1]
            IN  << [SetHop(fs, pr.ttl, h1) EXCEPT !.lowest = IF @ = 0 THEN pr.ttl ELSE Min2(@, pr.ttl),
                                                   !.round = Max2(@, pr.round)],
                   [k EXCEPT !.prev = IF hasNat THEN ns[2] ELSE @] >>
      [] pr.st = "A" ->
            LET h == HopOf(fs, pr.ttl)
                isF == ~k.fwd /\ IsForwardLoss(probes, pr.ttl)
                h1 == [h EXCEPT !.ttl = pr.ttl, !.sent = @ + 1,
                                !.samples = Push(@, 0, maxSamples),
                                !.lsport = pr.sport, !.ldport = pr.dport, !.lseq = pr.seq,
                                !.bl = @ + (IF k.fwd THEN 1 ELSE 0),
                                !.fl = @ + (IF isF THEN 1 ELSE 0)]
            IN  << [SetHop(fs, pr.ttl, h1) EXCEPT !.lowest = IF @ = 0 THEN pr.ttl ELSE Min2(@, pr.ttl),
                                                   !.round = Max2(@, pr.round)],
                   [k EXCEPT !.fwd = @ \/ isF] >>
      [] pr.st = "F" ->
            LET h == HopOf(fs, pr.ttl)
                h1 == [h EXCEPT !.ttl = pr.ttl, !.sent = @ + 1, !.failed = @ + 1,
                                !.samples = Push(@, 0, maxSamples),
                                !.lsport = pr.sport, !.ldport = pr.dport, !.lseq = pr.seq]
            IN  << [SetHop(fs, pr.ttl, h1) EXCEPT !.lowest = IF @ = 0 THEN pr.ttl ELSE Min2(@, pr.ttl),
                                                   !.round = Max2(@, pr.round)],
                   k >>
      [] OTHER -> <<fs, k>>

RECURSIVE ApplyProbes(_, _, _, _, _)
ApplyProbes(fs, k, i, probes, maxSamples) ==
    IF i > Len(probes) THEN fs
    ELSE LET r == ApplyProbe(fs, k, probes[i], probes, maxSamples) IN ApplyProbes(r[1], r[2], i + 1, probes, maxSamples)

\* StateUpdater::apply
Apply(fs, round, maxSamples) ==
    LET f1 == [fs EXCEPT !.rc = @ + 1, !.highest = Max2(@, round.largest), !.highestRound = round.largest]
    IN  ApplyProbes(f1, [fwd |-> FALSE, prev |-> -1], 1, round.probes, maxSamples)

RECURSIVE ApplyAll(_, _, _, _)
ApplyAll(fs, rounds, i, maxSamples) ==
    IF i > Len(rounds) THEN fs ELSE ApplyAll(Apply(fs, rounds[i], maxSamples), rounds, i + 1, maxSamples)

\* FlowState::hops(): the slice lowest..highest (empty if either is zero)
HopRange(fs) == IF fs.lowest = 0 \/ fs.highest = 0 THEN <<>>
                ELSE [i \in 1..Max2(0, fs.highest - fs.lowest + 1) |-> HopOf(fs, fs.lowest + i - 1)]

(***************************************************************************)
(* Declarative re-aggregation                                               *)
(***************************************************************************)
\* all (round index, probe index) pairs of live probes with a given ttl, in publication order
Occ(rounds, t) == SelectSeq(
    FlattenSeq([r \in 1..Len(rounds) |-> [i \in 1..Len(rounds[r].probes) |-> <<r, i>>]]),
    LAMBDA x : Live(rounds[x[1]].probes[x[2]]) /\ rounds[x[1]].probes[x[2]].ttl = t)
PrAt(rounds, x) == rounds[x[1]].probes[x[2]]
Count(s, P(_)) == Len(SelectSeq(s, P))

\* forward / backward loss of one round, declaratively: the first Awaited probe (in order) that
\* satisfies is_forward_loss is the forward loss; every Awaited probe after it is backward loss
FwdIdx(probes) ==
    LET cand == {i \in 1..Len(probes) : probes[i].st = "A" /\ IsForwardLoss(probes, probes[i].ttl)}
    IN  IF cand = {} THEN 0 ELSE CHOOSE i \in cand : \A j \in cand : i <= j

AggHop(rounds, t, maxSamples) ==
    LET occ   == Occ(rounds, t)
        comp  == SelectSeq(occ, LAMBDA x : PrAt(rounds, x).st = "C")
        rtts  == [i \in 1..Len(comp) |-> PrAt(rounds, comp[i]).rtt]
        n     == Len(comp)
        jits  == [i \in 1..n |-> IF i = 1 THEN rtts[1] ELSE Abs(rtts[i] - rtts[i - 1])]
        all   == [i \in 1..Len(occ) |-> IF PrAt(rounds, occ[i]).st = "C" THEN PrAt(rounds, occ[i]).rtt ELSE 0]
        rev   == Reverse(all)
        lastp == IF Len(occ) = 0 THEN Hop0 ELSE PrAt(rounds, occ[Len(occ)])
        lastc == IF n = 0 THEN Hop0 ELSE PrAt(rounds, comp[n])
    IN  [ ttl |-> IF Len(occ) = 0 THEN 0 ELSE t,
          sent |-> Len(occ), recv |-> n,
          failed |-> Count(occ, LAMBDA x : PrAt(rounds, x).st = "F"),
          fl |-> Count(occ, LAMBDA x : FwdIdx(rounds[x[1]].probes) = x[2]),
          bl |-> Count(occ, LAMBDA x : PrAt(rounds, x).st = "A" /\ FwdIdx(rounds[x[1]].probes) # 0
                                        /\ x[2] > FwdIdx(rounds[x[1]].probes)),
          total |-> FoldLeft(LAMBDA a, b : a + b, 0, rtts),
          last |-> IF n = 0 THEN -1 ELSE rtts[n],
          best |-> IF n = 0 THEN -1 ELSE FoldLeft(Min2, rtts[1], rtts),
          worst |-> IF n = 0 THEN -1 ELSE FoldLeft(Max2, rtts[1], rtts),
          jit |-> IF n < 2 THEN -1 ELSE jits[n],
          jmax |-> IF n = 0 THEN -1 ELSE FoldLeft(Max2, jits[1], jits),
          jsum |-> FoldLeft(LAMBDA a, b : a + b, 0, jits),
          samples |-> SubSeq(rev, 1, Min2(Len(rev), maxSamples)),
          recvByAddr |-> [a \in {PrAt(rounds, comp[i]).host : i \in 1..n} |->
                             Count(comp, LAMBDA x : PrAt(rounds, x).host = a)],
          lsport |-> IF Len(occ) = 0 THEN 0 ELSE lastp.sport,
          ldport |-> IF Len(occ) = 0 THEN 0 ELSE lastp.dport,
          lseq |-> IF Len(occ) = 0 THEN 0 ELSE lastp.seq,
          lkind |-> IF n = 0 THEN "none" ELSE lastc.kind,
          tos |-> IF n = 0 THEN -1 ELSE lastc.tos,
          ext |-> IF n = 0 THEN <<>> ELSE lastc.ext ]

\* window
AllLive(rounds) == {PrAt(rounds, x).ttl : x \in {y \in UNION {{<<r, i>> : i \in 1..Len(rounds[r].probes)} : r \in 1..Len(rounds)} :
                                                  Live(PrAt(rounds, y))}}
AggLowest(rounds)  == IF AllLive(rounds) = {} THEN 0 ELSE CHOOSE t \in AllLive(rounds) : \A u \in AllLive(rounds) : t <= u
AggHighest(rounds) == FoldLeft(Max2, 0, [r \in 1..Len(rounds) |-> rounds[r].largest])

AddrFn(addrs) == [a \in {addrs[i][1] : i \in 1..Len(addrs)} |-> (CHOOSE i \in 1..Len(addrs) : addrs[i][1] = a) ]
AddrCount(addrs, a) == LET i == CHOOSE j \in 1..Len(addrs) : addrs[j][1] = a IN addrs[i][2]

\* equality of the incremental hop with the declarative one on every common figure
HopEq(h, a) ==
    /\ h.ttl = a.ttl /\ h.sent = a.sent /\ h.recv = a.recv /\ h.failed = a.failed
    /\ h.fl = a.fl /\ h.bl = a.bl /\ h.total = a.total
    /\ h.last = a.last /\ h.best = a.best /\ h.worst = a.worst
    /\ h.jit = a.jit /\ h.jmax = a.jmax /\ h.jsum = a.jsum
    /\ h.samples = a.samples
    /\ {h.addrs[i][1] : i \in 1..Len(h.addrs)} = DOMAIN a.recvByAddr
    /\ \A x \in DOMAIN a.recvByAddr : AddrCount(h.addrs, x) = a.recvByAddr[x]
    /\ h.lsport = a.lsport /\ h.ldport = a.ldport /\ h.lseq = a.lseq /\ h.lkind = a.lkind /\ h.tos = a.tos
    /\ h.ext = a.ext

\* conservation laws (C05)
HopLaws(h, maxSamples) ==
    /\ h.recv + h.failed <= h.sent
    /\ FoldLeft(LAMBDA acc, x : acc + x[2], 0, h.addrs) = h.recv
    /\ h.fl + h.bl <= h.sent - h.recv - h.failed
    /\ Len(h.samples) <= maxSamples
    /\ h.recv > 0 => h.best * h.recv <= h.total /\ h.total <= h.worst * h.recv /\ h.best <= h.last /\ h.last <= h.worst
    /\ h.recv = 0 => h.best = -1 /\ h.worst = -1 /\ h.last = -1 /\ h.total = 0
=============================================================================
