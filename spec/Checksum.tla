------------------------------ MODULE Checksum ------------------------------
(* RFC 1071: the 16-bit one's complement of the one's complement sum of all 16-bit words. *)
EXTENDS Integers, Sequences, SequencesExt

Fold16(x) == LET a == (x % 65536) + (x \div 65536) IN (a % 65536) + (a \div 65536)
\* one's complement sum with end-around carry applied at every step (keeps the running sum below 2^17)
OnesSum(ws) == FoldLeft(LAMBDA acc, w : Fold16(acc + w), 0, ws)
Rfc1071(ws) == 65535 - OnesSum(ws)
\* a datagram verifies when all its words, checksum included, sum to 0xFFFF
Verifies(ws) == OnesSum(ws) = 65535
\* Paris: carrying the sequence in the checksum field and the displaced checksum in the payload keeps
\* the datagram valid (one's complement addition is commutative): swapping two words never changes the sum
SwapPreserves(ws, i, j) == OnesSum([k \in 1..Len(ws) |-> IF k = i THEN ws[j] ELSE IF k = j THEN ws[i] ELSE ws[k]]) = OnesSum(ws)
=============================================================================
