-------------------------------- MODULE Flows --------------------------------
(***************************************************************************)
(* The flow registry of trippy-core (flows.rs) and the attribution step of *)
(* State::update_from_round (state.rs), transcribed as operators.          *)
(* A flow is a sequence of entries: 0 = Unknown, a > 0 = Known(address a). *)
(* The registry is a sequence of flows; flow ids are positions (1-based,   *)
(* dense) exactly as next_flow_id issues them.                             *)
(***************************************************************************)
EXTENDS Integers, Sequences, FiniteSets

Min2(a, b) == IF a <= b THEN a ELSE b
Max2(a, b) == IF a >= b THEN a ELSE b

\* Flow::check: "nomatch" | "match" | "merge"
Check(old, new) ==
    LET n == Min2(Len(old), Len(new)) IN
    IF \E i \in 1..n : old[i] # 0 /\ new[i] # 0 /\ old[i] # new[i] THEN "nomatch"
    ELSE IF Len(new) > Len(old) \/ \E i \in 1..n : old[i] = 0 /\ new[i] # 0 THEN "merge"
    ELSE "match"

\* Flow::merge
Merge(old, new) ==
    [i \in 1..Max2(Len(old), Len(new)) |->
        IF i > Len(old) THEN new[i]
        ELSE IF i > Len(new) THEN old[i]
        ELSE IF old[i] = 0 /\ new[i] # 0 THEN new[i] ELSE old[i]]

\* index of the first entry that does not answer "nomatch", 0 if none
FirstMatch(reg, f) ==
    LET c == {i \in 1..Len(reg) : Check(reg[i], f) # "nomatch"} IN
    IF c = {} THEN 0 ELSE CHOOSE i \in c : \A j \in c : i <= j

\* FlowRegistry::register: <<registry', id>>
Register(reg, f) ==
    LET i == FirstMatch(reg, f) IN
    IF i = 0 THEN <<Append(reg, f), Len(reg) + 1>>
    ELSE IF Check(reg[i], f) = "merge" THEN <<[reg EXCEPT ![i] = Merge(reg[i], f)], i>>
    ELSE <<reg, i>>

\* the flow of a round as State::update_from_round builds it: Awaited -> Unknown, Complete -> Known,
\* Failed -> Unknown (as repaired, see known_findings.jsonl F16), everything else dropped; at most
\* `largest` entries
FlowOfRound(round) ==
    LET live == SelectSeq(round.probes, LAMBDA pr : pr.st \in {"A", "C", "F"})
        ents == [i \in 1..Len(live) |-> IF live[i].st = "C" THEN live[i].host ELSE 0]
    IN  SubSeq(ents, 1, Min2(Len(ents), round.largest))

\* the attribution step: <<registry', flow id or 0 if the round is not attributed>>
\* (as repaired, F9: once max_flows is reached no flow is created but matching rounds are still attributed)
Attribute(reg, round, maxFlows) ==
    LET f == FlowOfRound(round) IN
    IF Len(reg) < maxFlows THEN Register(reg, f)
    ELSE LET i == FirstMatch(reg, f) IN
         IF i = 0 THEN <<reg, 0>>
         ELSE IF Check(reg[i], f) = "merge" THEN <<[reg EXCEPT ![i] = Merge(reg[i], f)], i>> ELSE <<reg, i>>

\* ---- properties ----------------------------------------------------------------------------
\* new extends old: never contradicts or forgets
Extends(old, new) == Len(new) >= Len(old) /\ \A i \in 1..Len(old) : old[i] = 0 \/ new[i] = old[i]
\* the recorded flow agrees position by position with every address of f
Agrees(rec, f) == Len(rec) >= Len(f) /\ \A i \in 1..Len(f) : f[i] = 0 \/ rec[i] = f[i]
=============================================================================
