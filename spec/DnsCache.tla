------------------------------ MODULE DnsCache ------------------------------
(***************************************************************************)
(* The lazy reverse-DNS cache of trippy-dns (lazy_resolver.rs): the caller  *)
(* (the TUI thread, once per displayed address per frame) asks for an       *)
(* address and gets the cache's current answer at once; the lookup itself    *)
(* is done by a background thread fed through a bounded queue.               *)
(*                                                                          *)
(*   Lookup(a)   first time: entry Pending, request enqueued;                *)
(*               final entry (resolved / notfound / failed) older than the   *)
(*               ttl: the old entry is returned, its timestamp renewed and a *)
(*               request enqueued;                                           *)
(*               Timeout entry: becomes Pending again, request enqueued;     *)
(*               a request that cannot be enqueued (queue full for 10 ms)    *)
(*               leaves a Timeout entry.                                     *)
(*   WorkerTake / WorkerDone(r)   the background thread takes the head of    *)
(*               the queue, resolves, and stores the result - also when the  *)
(*               cache has been flushed in the meantime.                     *)
(*   Flush       the cache is emptied (the flush-dns key).                   *)
(***************************************************************************)
EXTENDS Integers, Sequences, FiniteSets

CONSTANTS Addrs, QueueCap, Ttl, MaxT,
          None       \* "no address" (a model value)
Finals == {"resolved", "notfound", "failed"}
Results == Finals \cup {"timeout"}
Kinds == Results \cup {"pending"}

VARIABLES cache,     \* partial function Addrs -> [st, ts]
          queue,     \* requests waiting for the background thread
          working,   \* the request being resolved (None if idle)
          now,
          ret        \* the answer of the latest Lookup: [a, st] (ghost)
vars == <<cache, queue, working, now, ret>>

Init == cache = <<>> /\ queue = <<>> /\ working = None /\ now = 0 /\ ret = [a |-> None, st |-> "none"]

Put(c, a, st, t) == [x \in (DOMAIN c) \cup {a} |-> IF x = a THEN [st |-> st, ts |-> t] ELSE c[x]]

\* the request is accepted by the queue, or (only when the queue is full) times out
Enqueue(c1, a, answer) ==
    \/ /\ Len(queue) < QueueCap
       /\ queue' = Append(queue, a) /\ cache' = c1 /\ ret' = [a |-> a, st |-> answer]
    \/ /\ Len(queue) >= QueueCap
       /\ queue' = queue /\ cache' = Put(c1, a, "timeout", now) /\ ret' = [a |-> a, st |-> "timeout"]

\* `stale`: the cached final entry is older than the ttl (a parameter so that a trace specification, which knows the
\* times only to within the logging skew, can leave the decision open near the boundary)
LookupWith(a, stale) ==
    /\ UNCHANGED <<working, now>>
    /\ IF a \notin DOMAIN cache
       THEN Enqueue(Put(cache, a, "pending", now), a, "pending")
       ELSE LET e == cache[a] IN
            IF e.st \in Finals /\ stale
            THEN Enqueue(Put(cache, a, e.st, now), a, e.st)
            ELSE IF e.st = "timeout"
            THEN Enqueue(Put(cache, a, "pending", now), a, "pending")
            ELSE cache' = cache /\ queue' = queue /\ ret' = [a |-> a, st |-> e.st]
Lookup(a) == LookupWith(a, a \in DOMAIN cache /\ now - cache[a].ts > Ttl)

WorkerTake == /\ working = None /\ queue # <<>>
              /\ working' = Head(queue) /\ queue' = Tail(queue)
              /\ UNCHANGED <<cache, now, ret>>
WorkerDone(r) == /\ working # None
                 /\ cache' = Put(cache, working, r, now)
                 /\ working' = None
                 /\ UNCHANGED <<queue, now, ret>>
Flush == cache' = <<>> /\ UNCHANGED <<queue, working, now, ret>>
Tick == now < MaxT /\ now' = now + 1 /\ UNCHANGED <<cache, queue, working, ret>>

Worker == WorkerTake \/ \E r \in Results : WorkerDone(r)
Next == (\E a \in Addrs : Lookup(a)) \/ Worker \/ Flush \/ Tick
Spec == Init /\ [][Next]_vars /\ WF_vars(Worker)

InQueue(a) == \E i \in 1..Len(queue) : queue[i] = a
TypeOK == /\ \A a \in DOMAIN cache : cache[a].st \in Kinds /\ cache[a].ts \in 0..MaxT
          /\ Len(queue) <= QueueCap
\* a hostname shown as pending is being worked on: its request is queued or in progress (otherwise it would stay
\* pending for ever)
PendingHasRequest == \A a \in DOMAIN cache : cache[a].st = "pending" => InQueue(a) \/ working = a
\* every pending entry is eventually settled (or flushed)
Settles == \A a \in Addrs : (a \in DOMAIN cache /\ cache[a].st = "pending") ~> (a \notin DOMAIN cache \/ cache[a].st # "pending")
=============================================================================
