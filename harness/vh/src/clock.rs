//! Virtual wall clock: the harness binary interposes libc `clock_gettime`, so `SystemTime::now()`
//! inside trippy-core reads this process-wide atomic.  Only `CLOCK_REALTIME` is virtualised.

use std::sync::atomic::{AtomicBool, AtomicU64, Ordering};

/// Seconds since the Unix epoch at virtual time zero.
pub const BASE_S: u64 = 1_700_000_000;

static NOW_NS: AtomicU64 = AtomicU64::new(0);
static VIRTUAL: AtomicBool = AtomicBool::new(true);

pub fn now_us() -> u64 {
    NOW_NS.load(Ordering::SeqCst) / 1000
}

pub fn set_us(t: u64) {
    NOW_NS.store(t * 1000, Ordering::SeqCst);
}

pub fn advance_us(d: u64) {
    NOW_NS.fetch_add(d * 1000, Ordering::SeqCst);
}

/// Switch virtualisation of `CLOCK_REALTIME` on or off (off = real time, used by threaded drivers).
pub fn set_virtual(on: bool) {
    VIRTUAL.store(on, Ordering::SeqCst);
}

/// Convert a `SystemTime` produced under the virtual clock to microseconds since virtual zero.
pub fn to_us(t: std::time::SystemTime) -> i64 {
    match t.duration_since(std::time::UNIX_EPOCH) {
        Ok(d) => d.as_micros() as i64 - (BASE_S as i64) * 1_000_000,
        Err(_) => -1,
    }
}

#[no_mangle]
#[allow(unsafe_code)]
pub unsafe extern "C" fn clock_gettime(clk: libc::clockid_t, ts: *mut libc::timespec) -> libc::c_int {
    if clk == libc::CLOCK_REALTIME && VIRTUAL.load(Ordering::SeqCst) {
        let ns = NOW_NS.load(Ordering::SeqCst);
        (*ts).tv_sec = (BASE_S + ns / 1_000_000_000) as libc::time_t;
        (*ts).tv_nsec = (ns % 1_000_000_000) as libc::c_long;
        0
    } else {
        libc::syscall(libc::SYS_clock_gettime, clk, ts) as libc::c_int
    }
}
