//! Verification harness for fujiapple852/trippy: drives the real code over a simulated socket and
//! a virtual clock and writes ndjson event logs that TLC validates against the TLA+ monitors.

mod clock;
mod gen;
mod packetdrv;
mod run;
mod scenario;
mod seqwalk;
mod sim;
mod snapdrv;
mod statedrv;
mod wire;

use scenario::Scenario;
use serde_json::json;
use std::collections::HashMap;
use std::io::Write;

fn arg<'a>(args: &'a [String], name: &str) -> Option<&'a str> {
    args.iter().position(|a| a == name).and_then(|i| args.get(i + 1)).map(String::as_str)
}

fn cmd_sim(args: &[String]) -> i32 {
    let seed: u64 = arg(args, "--seed").and_then(|s| s.parse().ok()).unwrap_or(1);
    let n: usize = arg(args, "--n").and_then(|s| s.parse().ok()).unwrap_or(10);
    let out = arg(args, "--out").unwrap_or("/dev/stdout");
    let scenarios: Vec<Scenario> = if let Some(path) = arg(args, "--scenarios") {
        let txt = std::fs::read_to_string(path).expect("read scenarios");
        txt.lines()
            .filter(|l| !l.trim().is_empty())
            .map(|l| serde_json::from_str(l).expect("scenario json"))
            .collect()
    } else {
        match arg(args, "--family").unwrap_or("loop") {
            "loop" => gen::gen_loop(seed, n, "loop"),
            "noise" => gen::gen_noise(seed, n),
            "fault" => gen::gen_fault(seed, n),
            "timing" => gen::gen_timing(seed, n),
            "sched" => gen::gen_sched(seed, n),
            "storm" => gen::gen_storm(seed, n),
            "nat" => gen::gen_nat(seed, n),
            "codec" => gen::gen_codec(seed, n),
            "fuzzloop" => gen::gen_fuzzloop(seed, n),
            "cfgrun" => gen::gen_cfgrun(seed, n),
            "long" => gen::gen_long(seed, n),
            "unpriv" => gen::gen_unpriv(seed, n),
            "grow" => gen::gen_grow(seed, n),
            "tcp" => gen::gen_tcp(seed, n),
            f => {
                eprintln!("unknown family {f}");
                return 2;
            }
        }
    };
    let mut scenarios = scenarios;
    if args.iter().any(|a| a == "--log-wire") {
        for sc in &mut scenarios {
            sc.log_wire = true;
        }
    }
    if let Some(mode) = arg(args, "--snap") {
        for sc in &mut scenarios {
            sc.snap = mode.to_string();
        }
    }
    if let Some(path) = arg(args, "--dump-scenarios") {
        let mut f = std::fs::File::create(path).expect("create");
        for sc in &scenarios {
            writeln!(f, "{}", serde_json::to_string(sc).unwrap()).unwrap();
        }
    }
    // silence the default panic message: a panic in the code under test is data
    std::panic::set_hook(Box::new(|_| {}));
    let mut f = std::io::BufWriter::new(std::fs::File::create(out).expect("create out"));
    let mut stats = Vec::new();
    for sc in &scenarios {
        let r = run::run_scenario(sc);
        for e in &r.events {
            writeln!(f, "{e}").unwrap();
        }
        let delivered: HashMap<String, u64> = r.counters.delivered.clone();
        stats.push(json!({"id":sc.id,"cell":format!("{}/{}/{}/{}/{}", sc.proto, sc.fam, sc.strat, sc.ports, if sc.privileged {"priv"} else {"unpriv"}),
            "events":r.events.len(),"sends":r.counters.sends,"wire":r.counters.wire,
            "recv_calls":r.counters.recv_calls,"delivered":delivered,"faults_fired":r.counters.faults_fired,
            "panicked":r.panicked,
            "shape":format!("{}p/{:?}/{}-{}-{}", sc.topo.paths.len(), sc.topo.paths.iter().map(|p| p.dist).collect::<Vec<_>>(), sc.first_ttl, sc.max_ttl, sc.max_inflight),
            "end": r.events.last()}));
    }
    f.flush().unwrap();
    if let Some(path) = arg(args, "--stats") {
        std::fs::write(path, serde_json::to_string(&stats).unwrap()).unwrap();
    }
    0
}

fn cmd_seqwalk(args: &[String]) -> i32 {
    let seed: u64 = arg(args, "--seed").and_then(|s| s.parse().ok()).unwrap_or(1);
    let n: usize = arg(args, "--n").and_then(|s| s.parse().ok()).unwrap_or(10);
    let out = arg(args, "--out").unwrap_or("/dev/stdout");
    let mut walks = Vec::new();
    if let Some(path) = arg(args, "--walks") {
        // lines as printed by TLC: <<"WALK", "{...json...}">>
        for l in std::fs::read_to_string(path).expect("read walks").lines() {
            if let (Some(a), Some(b)) = (l.find("\"{"), l.rfind("}\"")) {
                let js = l[a + 1..=b].replace("\\\"", "\"");
                if let Ok(w) = serde_json::from_str::<seqwalk::Walk>(&js) {
                    walks.push(w);
                }
            }
        }
    }
    walks.extend(seqwalk::random_walks(seed, n));
    std::panic::set_hook(Box::new(|_| {}));
    let mut f = std::io::BufWriter::new(std::fs::File::create(out).expect("create out"));
    let nw = walks.len();
    let (events, panics) = seqwalk::run(&walks, seed, &mut f);
    f.flush().unwrap();
    if let Some(path) = arg(args, "--stats") {
        let stats: Vec<_> = walks.iter().enumerate().map(|(i, w)| json!({"id":format!("walk-{i}"),"cell":format!("{}/{}", w.regime, w.max),
            "shape":format!("init{}-r{}", w.init, w.sizes.len()),"delivered":{"genuine":1}})).collect();
        std::fs::write(path, serde_json::to_string(&stats).unwrap()).unwrap();
    }
    eprintln!("seqwalk: {nw} walks, {events} events, {panics} panics");
    0
}

fn cmd_state(args: &[String]) -> i32 {
    let seed: u64 = arg(args, "--seed").and_then(|s| s.parse().ok()).unwrap_or(1);
    let n: usize = arg(args, "--n").and_then(|s| s.parse().ok()).unwrap_or(10);
    let out = arg(args, "--out").unwrap_or("/dev/stdout");
    let family = arg(args, "--family").unwrap_or("state");
    std::panic::set_hook(Box::new(|_| {}));
    let plans = statedrv::plans(seed, n, family);
    let mut f = std::io::BufWriter::new(std::fs::File::create(out).expect("create out"));
    let stats = statedrv::run(&plans, seed, &mut f);
    f.flush().unwrap();
    if let Some(path) = arg(args, "--stats") {
        std::fs::write(path, serde_json::to_string(&stats).unwrap()).unwrap();
    }
    if let Some(path) = arg(args, "--dump-scenarios") {
        std::fs::write(path, "").unwrap();
    }
    0
}

fn cmd_packet(args: &[String]) -> i32 {
    let seed: u64 = arg(args, "--seed").and_then(|s| s.parse().ok()).unwrap_or(1);
    let n: usize = arg(args, "--n").and_then(|s| s.parse().ok()).unwrap_or(10);
    let out = arg(args, "--out").unwrap_or("/dev/stdout");
    let family = arg(args, "--family").unwrap_or("fields");
    std::panic::set_hook(Box::new(|_| {}));
    let mut f = std::io::BufWriter::new(std::fs::File::create(out).expect("create out"));
    let mut stats = Vec::new();
    match family {
        "fields" | "fields16" => {
            let (ev, panics) = packetdrv::run_fields(seed, n, family == "fields16", &mut f);
            for (ty, _, fields) in packetdrv::TYPES {
                for (fl, w, _) in *fields {
                    stats.push(json!({"id":format!("{ty}.{fl}"),"cell":ty,"shape":format!("{fl}/{w}"),"delivered":{"genuine":1},"events":ev,"panicked":panics>0}));
                }
            }
        }
        "ck" => {
            let ev = packetdrv::run_checksums(seed, n, &mut f);
            for i in 0..ev.saturating_sub(1) {
                stats.push(json!({"id":format!("ck-{i}"),"cell":"ck","shape":format!("{i}"),"delivered":{"genuine":1}}));
            }
        }
        "views" => {
            packetdrv::install_panic_recorder();
            let (ev, panics) = packetdrv::run_views(seed, n, &mut f);
            writeln!(f, "{}", json!({"e":"end","panic":false,"panics":panics})).unwrap();
            for (ty, _) in packetdrv::VIEW_TYPES {
                stats.push(json!({"id":format!("view-{ty}"),"cell":ty,"shape":"view","delivered":{"genuine":1},"events":ev}));
            }
        }
        "recv" | "recv_all" => {
            packetdrv::install_panic_recorder();
            let (ev, panics) = packetdrv::run_recv(seed, n, family == "recv_all", &mut f);
            writeln!(f, "{}", json!({"e":"end","panic":false,"panics":panics})).unwrap();
            for i in 0..ev {
                stats.push(json!({"id":format!("recv-{i}"),"cell":format!("cfg{i}"),"shape":"recv","delivered":{"genuine":1}}));
            }
        }
        "ext" => {
            let (ev, panics) = packetdrv::run_ext(seed, n, &mut f);
            for i in 0..n {
                stats.push(json!({"id":format!("ext-{i}"),"cell":format!("{}", i % 30),"shape":format!("{i}"),"delivered":{"genuine":1},"events":ev,"panicked":panics>0}));
            }
        }
        "paris" | "paris_all" => {
            let ev = packetdrv::run_paris(seed, family == "paris_all", &mut f);
            for i in 0..(ev.saturating_sub(1)).min(5000) {
                stats.push(json!({"id":format!("paris-{i}"),"cell":"paris","shape":format!("{i}"),"delivered":{"genuine":1}}));
            }
        }
        _ => return 2,
    }
    f.flush().unwrap();
    if let Some(path) = arg(args, "--stats") {
        std::fs::write(path, serde_json::to_string(&stats).unwrap()).unwrap();
    }
    0
}

fn cmd_snap(args: &[String]) -> i32 {
    let seed: u64 = arg(args, "--seed").and_then(|s| s.parse().ok()).unwrap_or(1);
    let n: usize = arg(args, "--n").and_then(|s| s.parse().ok()).unwrap_or(3);
    let pause: u64 = arg(args, "--pause-us").and_then(|s| s.parse().ok()).unwrap_or(30);
    let out = arg(args, "--out").unwrap_or("/dev/stdout");
    let mut f = std::io::BufWriter::new(std::fs::File::create(out).expect("create out"));
    let stats = snapdrv::run(seed, n, pause, &mut f);
    f.flush().unwrap();
    if let Some(path) = arg(args, "--stats") {
        std::fs::write(path, serde_json::to_string(&stats).unwrap()).unwrap();
    }
    0
}

fn main() {
    let args: Vec<String> = std::env::args().collect();
    let code = match args.get(1).map(String::as_str) {
        Some("sim") => cmd_sim(&args[2..]),
        Some("seqwalk") => cmd_seqwalk(&args[2..]),
        Some("state") => cmd_state(&args[2..]),
        Some("packet") => cmd_packet(&args[2..]),
        Some("snap") => cmd_snap(&args[2..]),
        _ => {
            eprintln!("usage: vh sim --family F --seed S --n N --out FILE [--stats FILE]");
            2
        }
    };
    std::process::exit(code);
}
