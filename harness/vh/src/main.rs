fn main(){}
