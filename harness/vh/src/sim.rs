//! The simulated world: `SimSocket` (implements trippy-core's crate-private `Socket` trait), a
//! network of routers that answer the datagrams the tracer really put on the wire, a delivery
//! queue driven by the virtual clock, noise and fault injection, and the ground-truth event log.

use crate::clock;
use crate::scenario::{Hop, Path, Scenario};
use crate::wire::{self, ExtForm, ExtObject};
use rand::rngs::StdRng;
use rand::{Rng, SeedableRng};
use serde_json::{json, Value};
use std::cell::RefCell;
use std::collections::HashMap;
use std::io;
use std::net::{IpAddr, Ipv4Addr, Ipv6Addr, SocketAddr};
use std::time::Duration;
use trippy_core::verif::{
    Channel, Error, IoError, IoOperation, IoResult, Network, Response, Socket, SocketError,
};
use trippy_core::Probe;

/// Virtual cost of a `select()` with a zero timeout.
pub const ZERO_TIMEOUT_COST_US: u64 = 50;
pub const TARGET_CODE: u16 = 60000;
pub const SRC_CODE: u16 = 1;

pub fn addr_of(code: u16, fam: u8) -> IpAddr {
    if fam == 4 {
        IpAddr::V4(Ipv4Addr::new(10, (code >> 8) as u8, (code & 0xff) as u8, 1))
    } else {
        IpAddr::V6(Ipv6Addr::new(0xfd00, 0, 0, 0, 0, 0, 0, code))
    }
}

pub fn code_of(addr: IpAddr) -> i64 {
    match addr {
        IpAddr::V4(a) => {
            let o = a.octets();
            if o[0] == 10 && o[3] == 1 {
                i64::from(o[1]) * 256 + i64::from(o[2])
            } else {
                -1
            }
        }
        IpAddr::V6(a) => {
            let s = a.segments();
            if s[0] == 0xfd00 && s[1..7].iter().all(|&x| x == 0) {
                i64::from(s[7])
            } else {
                -1
            }
        }
    }
}

#[derive(Debug, Clone)]
pub struct SendRec {
    pub k: usize,
    pub seq: u16,
    pub ttl: u8,
    pub round: usize,
    pub t: u64,
    pub sport: u16,
    pub dport: u16,
    pub ident: u16,
    pub wire: Option<Vec<u8>>,
    pub handed: u32,
}

#[derive(Debug, Clone)]
enum Origin {
    Resp(usize),
    Noise(&'static str),
}

#[derive(Debug, Clone)]
struct Delivery {
    t: u64,
    n: u64,
    bytes: Vec<u8>,
    from: IpAddr,
    origin: Origin,
    tgt: bool,
    kind: &'static str,
    /// the sequence number a noise packet pretends to answer
    seq: u16,
    /// ground truth: the MPLS members of the extension structure carried (None = no structure)
    ext: Option<Vec<[u32; 4]>>,
}

#[derive(Debug, Clone)]
enum TcpOutcome {
    Connected,
    Refused,
    /// The hop limit expired at a router: the kernel reports the ICMP error on the connecting socket
    /// (EHOSTUNREACH, with the router's address in the error queue) instead of the raw ICMP socket seeing it.
    Unreach(u16),
}

#[derive(Debug, Clone)]
struct TcpState {
    k: usize,
    ready_at: Option<(u64, TcpOutcome)>,
}

#[derive(Debug, Default, Clone)]
pub struct Counters {
    pub sends: usize,
    pub wire: usize,
    pub recv_calls: u64,
    pub timeouts: u64,
    pub delivered: HashMap<String, u64>,
    pub faults_fired: usize,
}

pub struct World {
    pub sc: Scenario,
    rng: StdRng,
    pub t0: u64,
    pub events: Vec<String>,
    pub round: usize,
    pub sends: Vec<SendRec>,
    cur: Option<usize>,
    cur_wired: bool,
    queue: Vec<Delivery>,
    qn: u64,
    tcp: HashMap<u64, TcpState>,
    next_sock: u64,
    pub src: IpAddr,
    pub target: IpAddr,
    last_st: String,
    force_st: bool,
    pub counters: Counters,
    pub aborted: bool,
    prev_send_inuse: bool,
    pub fired: Vec<Value>,
    next_ext: Option<Vec<[u32; 4]>>,
    cur_ext: Option<Vec<[u32; 4]>>,
}

/// Set when a fatal receive fault has just been injected (the snapshot driver aims a burst of clears at the moment the
/// tracer publishes its error).
pub static FATAL_FIRED: std::sync::atomic::AtomicBool = std::sync::atomic::AtomicBool::new(false);

thread_local! {
    pub static WORLD: RefCell<Option<World>> = const { RefCell::new(None) };
}

pub fn with_world<R>(f: impl FnOnce(&mut World) -> R) -> R {
    WORLD.with(|w| f(w.borrow_mut().as_mut().expect("no world installed")))
}

pub fn install(world: World) {
    WORLD.with(|w| *w.borrow_mut() = Some(world));
}

pub fn take() -> World {
    WORLD.with(|w| w.borrow_mut().take().expect("no world installed"))
}

fn io_err(kind: &str) -> io::Error {
    match kind {
        "hostunreach" => io::Error::from_raw_os_error(libc::EHOSTUNREACH),
        "netunreach" => io::Error::from_raw_os_error(libc::ENETUNREACH),
        "invalid" => io::Error::from_raw_os_error(libc::EINVAL),
        "addrnotavail" => io::Error::from_raw_os_error(libc::EADDRNOTAVAIL),
        "addrinuse" => io::Error::from_raw_os_error(libc::EADDRINUSE),
        "perm" => io::Error::from_raw_os_error(libc::EPERM),
        "wouldblock" => io::Error::from_raw_os_error(libc::EAGAIN),
        "inprogress" => io::Error::from_raw_os_error(libc::EINPROGRESS),
        _ => io::Error::from_raw_os_error(libc::EIO),
    }
}

impl World {
    pub fn new(sc: Scenario) -> Self {
        let fam = sc.fam;
        let seed = sc.seed;
        Self {
            sc,
            rng: StdRng::seed_from_u64(seed),
            t0: clock::now_us(),
            events: Vec::new(),
            round: 0,
            sends: Vec::new(),
            cur: None,
            cur_wired: false,
            queue: Vec::new(),
            qn: 0,
            tcp: HashMap::new(),
            next_sock: 1,
            src: addr_of(SRC_CODE, fam),
            target: addr_of(TARGET_CODE, fam),
            last_st: String::new(),
            force_st: false,
            counters: Counters::default(),
            aborted: false,
            prev_send_inuse: false,
            fired: Vec::new(),
            next_ext: None,
            cur_ext: None,
        }
    }

    pub fn now(&self) -> u64 {
        clock::now_us() - self.t0
    }

    pub fn ev(&mut self, v: Value) {
        self.events.push(v.to_string());
    }

    fn fault_for_send(&mut self, op: &str) -> Option<String> {
        let k = self.cur? as i64;
        let hit = self
            .sc
            .faults
            .iter()
            .find(|f| (f.at_send == k || (f.from_send > 0 && k >= f.from_send && (f.until_send <= 0 || k < f.until_send))) && f.op == op)
            .map(|f| f.kind.clone());
        if let Some(kind) = &hit {
            self.counters.faults_fired += 1;
            self.fired.push(json!({"op":op,"kind":kind,"k":k,"r":-1}));
            // a failing socket operation is not free
            clock::advance_us(self.sc.net.fail_cost_us);
        }
        hit
    }

    fn fault_for_recv(&mut self, op: &str) -> Option<String> {
        let r = self.counters.recv_calls as i64 - 1;
        let hit = self
            .sc
            .faults
            .iter()
            .find(|f| f.at_recv == r && f.op == op)
            .map(|f| f.kind.clone());
        if let Some(kind) = &hit {
            self.counters.faults_fired += 1;
            self.fired.push(json!({"op":op,"kind":kind,"k":-1,"r":r}));
            if kind != "wouldblock" {
                FATAL_FIRED.store(true, std::sync::atomic::Ordering::SeqCst);
            }
        }
        hit
    }

    // ---------------------------------------------------------------------------------------
    // Sending side
    // ---------------------------------------------------------------------------------------

    pub fn begin_send(&mut self, probe: &Probe) {
        let k = self.sends.len();
        self.sends.push(SendRec {
            k,
            seq: probe.sequence.0,
            ttl: probe.ttl.0,
            round: probe.round.0,
            t: self.now(),
            sport: probe.src_port.0,
            dport: probe.dest_port.0,
            ident: probe.identifier.0,
            wire: None,
            handed: 0,
        });
        self.cur = Some(k);
        self.cur_wired = false;
        self.counters.sends += 1;
    }

    pub fn end_send(&mut self, res: &Result<(), Error>) {
        let k = self.cur.take().expect("end_send without begin_send");
        let outcome = match res {
            Ok(()) => "ok",
            Err(Error::ProbeFailed(_)) => "failed",
            Err(Error::AddressInUse(_)) => "inuse",
            Err(_) => "fatal",
        };
        let r = self.sends[k].clone();
        let reissue = self.prev_send_inuse;
        self.prev_send_inuse = outcome == "inuse";
        let t = self.now();
        self.ev(json!({"e":"send","t":t,"k":k,"seq":r.seq,"ttl":r.ttl,"round":r.round,
            "sport":r.sport,"dport":r.dport,"id":r.ident,"out":outcome,"wire":self.cur_wired,
            "reissue":reissue}));
        if outcome == "ok" {
            self.inject_noise(k);
        }
    }

    fn paths(&self) -> &Vec<Path> {
        let t = &self.sc.topo;
        if t.change_round > 0 && self.round >= t.change_round && !t.paths_after.is_empty() {
            &t.paths_after
        } else {
            &t.paths
        }
    }

    /// A complete IP datagram has been put on the wire for the send in progress.
    fn on_wire(&mut self, datagram: Vec<u8>, tcp_sock: Option<u64>) {
        let Some(k) = self.cur else { return };
        self.cur_wired = true;
        self.counters.wire += 1;
        let dec = wire::decode_outbound(&datagram);
        if self.sc.log_wire {
            let t = self.now();
            let mut v = serde_json::to_value(dec.clone().unwrap_or_default()).unwrap();
            let o = v.as_object_mut().unwrap();
            o.insert("e".into(), json!("wire"));
            o.insert("t".into(), json!(t));
            o.insert("k".into(), json!(k));
            o.insert("decoded".into(), json!(dec.is_some()));
            o.insert("dst_is_target".into(), json!(dec.as_ref().is_some_and(|d| d.dst == self.target.to_string())));
            o.insert("src_is_src".into(), json!(dec.as_ref().is_some_and(|d| d.src == self.src.to_string())));
            o.remove("src");
            o.remove("dst");
            self.ev(v);
        }
        self.sends[k].wire = Some(datagram.clone());
        let Some(dec) = dec else { return };
        // choose the ECMP branch
        let npaths = self.paths().len();
        if npaths == 0 {
            return;
        }
        let hash = match dec.proto {
            wire::PROTO_UDP | wire::PROTO_TCP => {
                if self.sc.strat == "classic" {
                    usize::from(dec.sport) * 31 + usize::from(dec.dport)
                } else {
                    usize::from(dec.sport) * 31 + usize::from(dec.dport) + self.sends[k].round * 7
                }
            }
            _ => usize::from(dec.icmp_seq),
        };
        let path = self.paths()[hash % npaths].clone();
        let ttl = dec.ttl;
        if ttl == 0 {
            return;
        }
        let now = self.now();
        let plan = self.sc.plan.iter().find(|p| p.k == k).cloned();
        let base_delay = |w: &mut World, hops: u64| -> u64 {
            let j = if w.sc.net.jitter_us > 0 {
                w.rng.random_range(0..=w.sc.net.jitter_us)
            } else {
                0
            };
            let mut d = w.sc.net.hop_delay_us * hops + j;
            if w.sc.net.late_pct > 0 && w.rng.random_range(0..100) < w.sc.net.late_pct {
                d += w.sc.net.late_us;
            }
            d.max(1)
        };
        if path.dist > 0 && ttl >= path.dist {
            // reaches the target
            if path.target_silent {
                return;
            }
            let lost = self.roll_loss(0);
            let (delay, dup) = match &plan {
                Some(p) if p.delay_us < 0 => return,
                Some(p) => (p.delay_us as u64, p.dup_us),
                None => {
                    if lost {
                        return;
                    }
                    let d = base_delay(self, u64::from(path.dist));
                    let dup = if self.sc.net.dup_pct > 0 && self.rng.random_range(0..100) < self.sc.net.dup_pct {
                        (d + self.sc.net.dup_gap_us) as i64
                    } else {
                        -1
                    };
                    (d, dup)
                }
            };
            match dec.proto {
                wire::PROTO_ICMP | wire::PROTO_ICMPV6 => {
                    let payload = &datagram[if dec.fam == 4 { 28 } else { 48 }..];
                    let (bytes, kind) = self.echo_reply(dec.icmp_id, dec.icmp_seq, payload);
                    self.enqueue(now + delay, bytes.clone(), self.target, Origin::Resp(k), true, kind, dec.icmp_seq);
                    if dup >= 0 {
                        self.enqueue(now + dup as u64, bytes, self.target, Origin::Resp(k), true, kind, dec.icmp_seq);
                    }
                }
                wire::PROTO_UDP => {
                    let target_hop = Hop {
                        addr: TARGET_CODE,
                        quote: 1,
                        ..Hop::default()
                    };
                    let quoted = self.quote(&datagram, &path, usize::from(path.dist), &target_hop);
                    let bytes = self.icmp_error(self.target, false, &quoted, &target_hop);
                    self.enqueue(now + delay, bytes.clone(), self.target, Origin::Resp(k), true, "du", 0);
                    if dup >= 0 {
                        self.enqueue(now + dup as u64, bytes, self.target, Origin::Resp(k), true, "du", 0);
                    }
                }
                wire::PROTO_TCP => {
                    if let Some(sock) = tcp_sock {
                        let outcome = if path.tcp == "rst" {
                            TcpOutcome::Refused
                        } else {
                            TcpOutcome::Connected
                        };
                        if let Some(st) = self.tcp.get_mut(&sock) {
                            st.ready_at = Some((now + delay, outcome));
                        }
                    }
                }
                _ => {}
            }
        } else if usize::from(ttl) <= path.hops.len() {
            let hop = path.hops[usize::from(ttl) - 1].clone();
            if hop.silent {
                return;
            }
            let lost = self.roll_loss(hop.loss);
            let (delay, dup) = match &plan {
                Some(p) if p.delay_us < 0 => return,
                Some(p) => (p.delay_us as u64, p.dup_us),
                None => {
                    if lost {
                        return;
                    }
                    let d = base_delay(self, u64::from(ttl));
                    let dup = if hop.dup || (self.sc.net.dup_pct > 0 && self.rng.random_range(0..100) < self.sc.net.dup_pct) {
                        (d + self.sc.net.dup_gap_us) as i64
                    } else {
                        -1
                    };
                    (d, dup)
                }
            };
            if let Some(sock) = tcp_sock {
                if !hop.du && self.sc.net.tcp_sockerr_pct > 0 && self.rng.random_range(0..100) < self.sc.net.tcp_sockerr_pct {
                    if let Some(st) = self.tcp.get_mut(&sock) {
                        st.ready_at = Some((now + delay, TcpOutcome::Unreach(hop.addr)));
                    }
                    return;
                }
            }
            let quoted = self.quote(&datagram, &path, usize::from(ttl), &hop);
            let from = addr_of(hop.addr, self.sc.fam);
            let bytes = self.icmp_error(from, !hop.du, &quoted, &hop);
            let hop_kind: &'static str = if hop.du { "du" } else { "te" };
            let xt = if hop.quote == 2 || hop.quote == 3 {
                Some(hop.mpls.iter().map(|m| [m.label, u32::from(m.exp), u32::from(m.bos), u32::from(m.ttl)]).collect::<Vec<_>>())
            } else {
                None
            };
            self.next_ext.clone_from(&xt);
            self.enqueue(now + delay, bytes.clone(), from, Origin::Resp(k), false, hop_kind, 0);
            if dup >= 0 {
                self.next_ext = xt;
                self.enqueue(now + dup as u64, bytes, from, Origin::Resp(k), false, hop_kind, 0);
            }
        }
    }

    fn roll_loss(&mut self, hop_loss: u8) -> bool {
        let a = self.sc.net.loss > 0 && self.rng.random_range(0..100) < self.sc.net.loss;
        let b = hop_loss > 0 && self.rng.random_range(0..100) < hop_loss;
        a || b
    }

    /// The datagram as seen (and quoted) by the responder at distance `at` on `path`.
    fn quote(&self, datagram: &[u8], path: &Path, at: usize, hop: &Hop) -> Vec<u8> {
        let mut q = datagram.to_vec();
        let v4 = self.sc.fam == 4;
        // in-transit changes: TTL / hop limit, TOS rewrite, NAT checksum rewrite
        if v4 {
            q[8] = 1;
            if hop.tos_rewrite > 0 {
                q[1] = hop.tos_rewrite - 1;
            }
        } else {
            q[7] = 1;
            if hop.tos_rewrite > 0 {
                let tc = hop.tos_rewrite - 1;
                q[0] = 0x60 | (tc >> 4);
                q[1] = (tc << 4) | (q[1] & 0x0f);
            }
        }
        // NAT devices at or before `at`
        let mut nat_id: u16 = 0;
        let mut keep_src = false;
        for (i, h) in path.hops.iter().enumerate() {
            if i + 1 <= at && h.nat > 0 {
                nat_id = nat_id.wrapping_mul(31).wrapping_add(h.nat);
                keep_src = h.nat_keep_src;
            }
        }
        if nat_id > 0 && v4 && q[9] == wire::PROTO_UDP && q.len() >= 28 {
            // the UDP checksum as recomputed by the translating device(s) for a translated source
            let src2 = Ipv4Addr::new(100, 64, (nat_id >> 8) as u8, (nat_id & 0xff) as u8);
            let dst = Ipv4Addr::new(q[16], q[17], q[18], q[19]);
            let mut udp = q[20..].to_vec();
            udp[6] = 0;
            udp[7] = 0;
            let len = udp.len() as u16;
            let mut c = wire::checksum(&[&wire::pseudo_v4(src2, dst, wire::PROTO_UDP, len), &udp]);
            if c == 0 {
                c = 0xffff;
            }
            q[26..28].copy_from_slice(&c.to_be_bytes());
            if keep_src {
                // some devices do not translate the datagram embedded in an ICMP error back
                q[12..16].copy_from_slice(&src2.octets());
            }
        }
        if v4 {
            wire::ipv4_fix_checksum(&mut q);
        }
        // quotation length
        let ip_len = if v4 { 20 } else { 40 };
        if v4 {
            match hop.quote {
                0 => q.truncate(ip_len + 8),
                4 => q.truncate(ip_len + 28),
                _ => {}
            }
        } else {
            // RFC 4443: as much as fits in the minimum MTU
            q.truncate(1280 - 40 - 8);
        }
        q
    }

    fn icmp_error(&mut self, from: IpAddr, time_exceeded: bool, quoted: &[u8], hop: &Hop) -> Vec<u8> {
        let (form, ext) = match hop.quote {
            2 | 3 => {
                let mut objs = Vec::new();
                if !hop.mpls.is_empty() {
                    objs.push(ExtObject::Mpls(hop.mpls.iter().map(Into::into).collect()));
                }
                (
                    if hop.quote == 2 { ExtForm::Compliant } else { ExtForm::Legacy },
                    wire::ext_structure(&objs),
                )
            }
            _ => (ExtForm::None, Vec::new()),
        };
        match (from, self.src) {
            (IpAddr::V4(f), IpAddr::V4(s)) => {
                let (typ, code) = if time_exceeded { (11, 0) } else { (3, 3) };
                let icmp = wire::icmp4_error(typ, code, quoted, form, &ext);
                let id = self.rng.random::<u16>();
                let mut pkt = wire::ipv4_header(f, s, wire::PROTO_ICMP, 250, 0xc0, id, 0, (20 + icmp.len()) as u16).to_vec();
                pkt.extend_from_slice(&icmp);
                pkt
            }
            (IpAddr::V6(f), IpAddr::V6(s)) => {
                let (typ, code) = if time_exceeded { (3, 0) } else { (1, 4) };
                wire::icmp6_error(f, s, typ, code, quoted, form, &ext)
            }
            _ => Vec::new(),
        }
    }

    fn echo_reply(&mut self, id: u16, seq: u16, payload: &[u8]) -> (Vec<u8>, &'static str) {
        match (self.target, self.src) {
            (IpAddr::V4(f), IpAddr::V4(s)) => {
                let icmp = wire::icmp4_echo_reply(id, seq, payload);
                let ipid = self.rng.random::<u16>();
                let mut pkt = wire::ipv4_header(f, s, wire::PROTO_ICMP, 60, 0, ipid, 0, (20 + icmp.len()) as u16).to_vec();
                pkt.extend_from_slice(&icmp);
                (pkt, "er")
            }
            (IpAddr::V6(f), IpAddr::V6(s)) => (wire::icmp6_echo_reply(f, s, id, seq, payload), "er"),
            _ => (Vec::new(), "er"),
        }
    }

    #[allow(clippy::too_many_arguments)]
    fn enqueue(&mut self, t: u64, bytes: Vec<u8>, from: IpAddr, origin: Origin, tgt: bool, kind: &'static str, seq: u16) {
        self.qn += 1;
        let d = Delivery {
            t,
            n: self.qn,
            bytes,
            from,
            origin,
            tgt,
            kind,
            seq,
            ext: self.next_ext.take(),
        };
        let pos = self
            .queue
            .iter()
            .position(|x| (x.t, x.n) > (d.t, d.n))
            .unwrap_or(self.queue.len());
        self.queue.insert(pos, d);
    }

    /// Put raw bytes on the receive socket now (used by the C04 receive-path sweeps).
    /// Drop whatever was injected and not read (sweeps inject one datagram per receive call).
    pub fn clear_queue(&mut self) -> usize {
        let n = self.queue.len();
        self.queue.clear();
        n
    }

    pub fn inject(&mut self, bytes: Vec<u8>, from: IpAddr) {
        let now = self.now();
        self.enqueue(now, bytes, from, Origin::Noise("garbage"), false, "other", 0);
    }

    // ---------------------------------------------------------------------------------------
    // Noise: foreign, never-sent and garbage packets
    // ---------------------------------------------------------------------------------------

    fn inject_noise(&mut self, k: usize) {
        let n = self.sc.noise.clone();
        if n.foreign_pct == 0 && n.never_pct == 0 && n.garbage_pct == 0 && n.mutant_pct == 0 {
            return;
        }
        let Some(tpl) = self.sends[k].wire.clone() else { return };
        let now = self.now();
        let hop = Hop {
            addr: 777,
            quote: 1,
            ..Hop::default()
        };
        let from = addr_of(hop.addr, self.sc.fam);
        if n.foreign_pct > 0 && self.rng.random_range(0..100) < n.foreign_pct {
            let mut q = tpl.clone();
            let seq = self.sends[k].seq;
            if self.make_foreign(&mut q) {
                self.fix_quote(&mut q);
                let bytes = self.icmp_error(from, true, &q, &hop);
                let d = self.rng.random_range(1..=self.sc.net.hop_delay_us.max(2) * 3);
                self.enqueue(now + d, bytes, from, Origin::Noise("foreign"), false, "te", seq);
            }
        }
        if n.foreign_pct > 0 && self.sc.proto != "icmp" && self.rng.random_range(0..100) < n.foreign_pct / 2 {
            // unrelated ICMP traffic reaching a UDP / TCP tracer: an echo reply (somebody's ping) whose identifier is
            // zero or this tracer's and whose sequence number is that of a probe in flight
            let seq = self.sends[k].seq;
            let id = if self.rng.random_bool(0.5) { 0 } else { self.sc.trace_id };
            let (bytes, _) = self.echo_reply(id, seq, &[0u8; 16]);
            if !bytes.is_empty() {
                let tgt = self.target;
                let d = self.rng.random_range(1..=self.sc.net.hop_delay_us.max(2) * 3);
                self.enqueue(now + d, bytes, tgt, Origin::Noise("foreign"), false, "er", seq);
            }
        }
        // the first round after a wrap-around re-uses the sequence numbers of round 0: the probe buffer may still hold
        // unanswered probes of that (typically longer) round under exactly those numbers
        let aligned = self.round > 0
            && self.sends.iter().rev().take_while(|r| r.round == self.round).last().is_some_and(|r| r.seq == self.sc.init_seq);
        if n.never_pct > 0 && (aligned || self.rng.random_range(0..100) < n.never_pct) {
            // a sequence number inside the window but not (yet) sent in this round
            let r = &self.sends[k];
            // often just beyond what this round has sent: those buffer slots may still hold probes of an earlier,
            // longer round (after a wrap-around even under the same sequence numbers)
            let ahead = if aligned || self.rng.random_bool(0.5) { self.rng.random_range(1..30u16) } else { self.rng.random_range(1..400u16) };
            let never = r.seq.wrapping_add(ahead);
            let mut q = tpl.clone();
            if self.set_sequence(&mut q, never) {
                self.fix_quote(&mut q);
                let bytes = self.icmp_error(from, true, &q, &hop);
                let d = self.rng.random_range(1..=self.sc.net.hop_delay_us.max(2));
                self.enqueue(now + d, bytes, from, Origin::Noise("never"), false, "te", never);
            }
        }
        if n.mutant_pct > 0 && self.rng.random_range(0..100) < n.mutant_pct {
            // a valid response to this probe with a few octets of its structural part overwritten, or cut short
            let mhop = Hop {
                addr: 778,
                quote: *[0u8, 1, 2, 3].get(self.rng.random_range(0..4)).unwrap(),
                ..Hop::default()
            };
            let mut q = tpl.clone();
            self.fix_quote(&mut q);
            let te = self.rng.random_bool(0.7);
            let mut bytes = self.icmp_error(from, te, &q, &mhop);
            let span = bytes.len().min(160);
            for _ in 0..self.rng.random_range(1..3) {
                let k = self.rng.random_range(0..span);
                bytes[k] = self.rng.random();
            }
            if self.rng.random_bool(0.05) {
                let cut = self.rng.random_range(0..=bytes.len());
                bytes.truncate(cut);
            }
            let d = self.rng.random_range(1..=self.sc.net.hop_delay_us.max(2) * 2);
            self.enqueue(now + d, bytes, from, Origin::Noise("garbage"), false, "other", 0);
        }
        if n.garbage_pct > 0 && self.rng.random_range(0..100) < n.garbage_pct {
            // a well-formed ICMP message of a type the tracer has no business with
            let bytes = match (from, self.src) {
                (IpAddr::V4(f), IpAddr::V4(s)) => {
                    let mut icmp = vec![8u8, 0, 0, 0, 0x12, 0x34, 0, 1];
                    icmp.extend_from_slice(&[0x55; 16]);
                    let c = wire::checksum(&[&icmp]);
                    icmp[2..4].copy_from_slice(&c.to_be_bytes());
                    let mut p = wire::ipv4_header(f, s, wire::PROTO_ICMP, 64, 0, 7, 0, (20 + icmp.len()) as u16).to_vec();
                    p.extend_from_slice(&icmp);
                    p
                }
                (IpAddr::V6(f), IpAddr::V6(s)) => {
                    let mut icmp = vec![128u8, 0, 0, 0, 0x12, 0x34, 0, 1];
                    icmp.extend_from_slice(&[0x55; 16]);
                    let c = wire::checksum(&[&wire::pseudo_v6(f, s, wire::PROTO_ICMPV6, icmp.len() as u32), &icmp]);
                    icmp[2..4].copy_from_slice(&c.to_be_bytes());
                    icmp
                }
                _ => Vec::new(),
            };
            let d = self.rng.random_range(1..=self.sc.net.hop_delay_us.max(2) * 2);
            self.enqueue(now + d, bytes, from, Origin::Noise("garbage"), false, "other", 0);
        }
    }

    fn fix_quote(&self, q: &mut [u8]) {
        if self.sc.fam == 4 {
            q[8] = 1;
            wire::ipv4_fix_checksum(q);
        } else {
            q[7] = 1;
        }
    }

    fn l4_off(&self) -> usize {
        if self.sc.fam == 4 {
            20
        } else {
            40
        }
    }

    /// Rewrite the field that carries the probe's sequence (the `Wire.Encode` table).
    fn set_sequence(&self, q: &mut Vec<u8>, seq: u16) -> bool {
        let o = self.l4_off();
        let b = seq.to_be_bytes();
        match (self.sc.proto.as_str(), self.sc.strat.as_str()) {
            ("icmp", _) => q[o + 6..o + 8].copy_from_slice(&b),
            ("udp", "classic") | ("tcp", _) => {
                if self.sc.ports == "dest" {
                    q[o..o + 2].copy_from_slice(&b);
                } else {
                    q[o + 2..o + 4].copy_from_slice(&b);
                }
            }
            ("udp", "paris") => q[o + 6..o + 8].copy_from_slice(&b),
            ("udp", "dublin") => {
                if self.sc.fam == 4 {
                    q[4..6].copy_from_slice(&b);
                } else {
                    if seq < self.sc.init_seq {
                        return false;
                    }
                    let plen = usize::from(seq - self.sc.init_seq) + 6;
                    if plen > 900 {
                        return false;
                    }
                    q.truncate(o + 8);
                    q.extend_from_slice(b"trippy");
                    q.resize(o + 8 + plen, self.sc.pattern);
                    let ulen = (8 + plen) as u16;
                    q[o + 4..o + 6].copy_from_slice(&ulen.to_be_bytes());
                    q[4..6].copy_from_slice(&ulen.to_be_bytes());
                }
            }
            _ => return false,
        }
        true
    }

    /// Turn a quotation of our own probe into one of a datagram this tracer did not send.
    fn make_foreign(&mut self, q: &mut [u8]) -> bool {
        let o = self.l4_off();
        match self.sc.proto.as_str() {
            "icmp" => {
                let other = if self.sc.noise.foreign_zero_id {
                    0
                } else {
                    // the identifier the CLI would give the next tracer (pid + 1); the property speaks of
                    // non-zero identifiers (zero is accepted by every tracer: F7, see DESIGN.md)
                    if self.sc.trace_id == u16::MAX { 1 } else { self.sc.trace_id + 1 }
                };
                q[o + 4..o + 6].copy_from_slice(&other.to_be_bytes());
                true
            }
            "udp" | "tcp" => {
                match self.rng.random_range(0..4) {
                    3 => {
                        // another protocol
                        if self.sc.fam == 4 {
                            q[9] = if q[9] == wire::PROTO_UDP { wire::PROTO_TCP } else { wire::PROTO_UDP };
                        } else {
                            q[6] = if q[6] == wire::PROTO_UDP { wire::PROTO_TCP } else { wire::PROTO_UDP };
                        }
                    }
                    0 => {
                        // another destination
                        if self.sc.fam == 4 {
                            q[19] ^= 0x40;
                        } else {
                            q[39] ^= 0x40;
                        }
                    }
                    1 => {
                        // another fixed port
                        match self.sc.ports.as_str() {
                            "src" | "both" => q[o + 1] ^= 0x01,
                            _ => q[o + 3] ^= 0x01,
                        }
                    }
                    _ => {
                        if self.sc.strat == "dublin" && self.sc.fam == 6 && q.len() >= o + 14 {
                            // no magic marker
                            q[o + 8] = b'x';
                        } else if self.sc.fam == 4 {
                            q[16] ^= 0x01;
                        } else {
                            q[25] ^= 0x01;
                        }
                    }
                }
                true
            }
            _ => false,
        }
    }

    // ---------------------------------------------------------------------------------------
    // Receiving side
    // ---------------------------------------------------------------------------------------

    fn is_readable(&mut self, timeout: Duration) -> IoResult<bool> {
        self.counters.recv_calls += 1;
        if self.counters.recv_calls > self.sc.max_recv_calls {
            self.aborted = true;
            return Err(IoError::Other(io_err("other"), IoOperation::Select));
        }
        if let Some(kind) = self.fault_for_recv("select") {
            return Err(IoError::Other(io_err(&kind), IoOperation::Select));
        }
        let to = timeout.as_micros() as u64;
        let now = self.now();
        // the real implementation passes whole milliseconds to select()
        let to = (to / 1000) * 1000;
        // a zero timeout is a poll: charge the cost of the system call so virtual time progresses
        let poll_cost = if to == 0 { ZERO_TIMEOUT_COST_US } else { 0 };
        match self.queue.first() {
            Some(d) if d.t <= now + to => {
                let t = d.t.max(now);
                clock::set_us(self.t0 + t + poll_cost);
                Ok(true)
            }
            _ => {
                clock::set_us(self.t0 + now + to + poll_cost);
                self.counters.timeouts += 1;
                Ok(false)
            }
        }
    }

    fn pop(&mut self, buf: &mut [u8], op: IoOperation) -> IoResult<(usize, IpAddr)> {
        let opname = if matches!(op, IoOperation::Read) { "read" } else { "recv_from" };
        if let Some(kind) = self.fault_for_recv(opname).or_else(|| self.fault_for_recv("read")) {
            return Err(IoError::Other(io_err(&kind), op));
        }
        let now = self.now();
        // a "never-sent" sequence that has been sent in the meantime would be a forged answer to a real
        // probe (none of the property's classes, and indistinguishable from a genuine one): drop it
        while let Some(d) = self.queue.first() {
            let stale = matches!(d.origin, Origin::Noise("never"))
                && d.t <= now
                && self.sends.iter().rev().take(600).any(|r| r.round == self.round && r.seq == d.seq);
            // a response delayed by more than one whole round: by then the tracer may legitimately have re-used its
            // sequence number (only the immediately preceding round is kept apart, C07), so it is indistinguishable
            // from an answer to the current probe and belongs to none of the property's classes: not delivered
            let ancient = matches!(d.origin, Origin::Resp(k) if self.sends[k].round + 1 < self.round) && d.t <= now;
            if stale || ancient {
                self.queue.remove(0);
            } else {
                break;
            }
        }
        if self.queue.first().is_none_or(|d| d.t > now) {
            return Err(IoError::Other(io_err("wouldblock"), op));
        }
        let d = self.queue.remove(0);
        let n = d.bytes.len().min(buf.len());
        buf[..n].copy_from_slice(&d.bytes[..n]);
        self.cur_ext.clone_from(&d.ext);
        self.log_delivery(&d.origin, code_of(d.from), d.tgt, d.kind, d.seq);
        Ok((n, d.from))
    }

    fn log_delivery(&mut self, origin: &Origin, from: i64, tgt: bool, kind: &str, nseq: u16) {
        let t = self.now();
        let (label, k, seq, ttl, round) = match origin {
            Origin::Resp(k) => {
                let cur_round = self.round;
                let r = &mut self.sends[*k];
                let label = if r.round < cur_round {
                    "late"
                } else if r.handed > 0 {
                    "dup"
                } else {
                    "genuine"
                };
                r.handed += 1;
                (label, *k as i64, r.seq, r.ttl, r.round as i64)
            }
            Origin::Noise(l) => (*l, -1, nseq, 0, -1),
        };
        *self.counters.delivered.entry(label.to_string()).or_default() += 1;
        self.force_st = true;
        let xt = self.cur_ext.take();
        self.ev(json!({"e":"dlv","t":t,"label":label,"k":k,"seq":seq,"ttl":ttl,"round":round,
            "from":from,"tgt":tgt,"kind":kind,"xt_has":xt.is_some(),"xt":xt.unwrap_or_default()}));
    }

    pub fn observe_state(&mut self, phase: &str, p: &trippy_core::verif::StateProjection) {
        if !self.sc.log_st {
            return;
        }
        let opt = |o: Option<u8>| o.map_or(-1, i64::from);
        let us = |t: std::time::SystemTime| clock::to_us(t) - self.t0 as i64;
        let sc: String = p.statuses.iter().map(|c| char::from(b'0' + c)).collect();
        let body = json!({"seq":p.sequence,"rseq":p.round_sequence,"ttl":p.ttl,"round":p.round,
            "rs":us(p.round_start),"tf":p.target_found,"mrt":opt(p.max_received_ttl),
            "tt":opt(p.target_ttl),"rt":p.received_time.map_or(-1, us),"sc":sc,"scn":p.statuses,
            "bc":p.buffer_counts});
        let s = body.to_string();
        if s != self.last_st || self.force_st {
            self.last_st.clone_from(&s);
            let force = self.force_st;
            self.force_st = false;
            let mut v = body;
            let o = v.as_object_mut().unwrap();
            o.insert("e".into(), json!("st"));
            o.insert("ph".into(), json!(phase));
            o.insert("after_dlv".into(), json!(force && phase == "recv"));
            self.ev(v);
        }
    }
}

// -------------------------------------------------------------------------------------------
// SimSocket
// -------------------------------------------------------------------------------------------

#[derive(Debug, Clone, Copy, PartialEq, Eq)]
enum Kind {
    IcmpSend,
    UdpSend,
    Recv,
    Stream,
    Dgram,
}

#[derive(Debug)]
pub struct SimSocket {
    id: u64,
    kind: Kind,
    fam: u8,
    raw: bool,
    ttl: u32,
    tos: u32,
    hops: u8,
    bound: Option<SocketAddr>,
    peer: Option<SocketAddr>,
    /// A TCP probe: a non-blocking connect was started on this socket.
    opened: bool,
    /// The address in the socket's error queue (the router that reported the expired hop limit).
    err_addr: Option<IpAddr>,
}

/// The lifetime of a TCP probe's socket ends when the channel lets go of it (taken, expired, evicted or torn down).
impl Drop for SimSocket {
    fn drop(&mut self) {
        if self.opened {
            let id = self.id;
            WORLD.with(|w| {
                if let Ok(mut g) = w.try_borrow_mut() {
                    if let Some(w) = g.as_mut() {
                        w.tcp.remove(&id);
                        let t = w.now();
                        w.ev(json!({"e":"tcp_close","sock":id,"t":t}));
                    }
                }
            });
        }
    }
}

impl SimSocket {
    fn make(kind: Kind, fam: u8, raw: bool) -> IoResult<Self> {
        with_world(|w| {
            if let Some(kind) = w.fault_for_send("new") {
                return Err(IoError::Other(io_err(&kind), IoOperation::NewSocket));
            }
            let id = w.next_sock;
            w.next_sock += 1;
            Ok(Self {
                id,
                kind,
                fam,
                raw,
                ttl: 64,
                tos: 0,
                hops: 64,
                bound: None,
                peer: None,
                opened: false,
                err_addr: None,
            })
        })
    }
}

impl Socket for SimSocket {
    fn new_icmp_send_socket_ipv4(raw: bool) -> IoResult<Self> {
        Self::make(Kind::IcmpSend, 4, raw)
    }
    fn new_icmp_send_socket_ipv6(raw: bool) -> IoResult<Self> {
        Self::make(Kind::IcmpSend, 6, raw)
    }
    fn new_udp_send_socket_ipv4(raw: bool) -> IoResult<Self> {
        Self::make(Kind::UdpSend, 4, raw)
    }
    fn new_udp_send_socket_ipv6(raw: bool) -> IoResult<Self> {
        Self::make(Kind::UdpSend, 6, raw)
    }
    fn new_recv_socket_ipv4(_addr: Ipv4Addr, raw: bool) -> IoResult<Self> {
        Self::make(Kind::Recv, 4, raw)
    }
    fn new_recv_socket_ipv6(_addr: Ipv6Addr, raw: bool) -> IoResult<Self> {
        Self::make(Kind::Recv, 6, raw)
    }
    fn new_stream_socket_ipv4() -> IoResult<Self> {
        Self::make(Kind::Stream, 4, false)
    }
    fn new_stream_socket_ipv6() -> IoResult<Self> {
        Self::make(Kind::Stream, 6, false)
    }
    fn new_udp_dgram_socket_ipv4() -> IoResult<Self> {
        Self::make(Kind::Dgram, 4, false)
    }
    fn new_udp_dgram_socket_ipv6() -> IoResult<Self> {
        Self::make(Kind::Dgram, 6, false)
    }
    fn bind(&mut self, address: SocketAddr) -> IoResult<()> {
        with_world(|w| {
            if let Some(kind) = w.fault_for_send("bind") {
                return Err(IoError::Bind(io_err(&kind), address));
            }
            self.bound = Some(address);
            Ok(())
        })
    }
    fn set_tos(&mut self, tos: u32) -> IoResult<()> {
        self.tos = tos;
        Ok(())
    }
    fn set_ttl(&mut self, ttl: u32) -> IoResult<()> {
        with_world(|w| {
            if let Some(kind) = w.fault_for_send("set_ttl") {
                return Err(IoError::Other(io_err(&kind), IoOperation::SetTtl));
            }
            self.ttl = ttl;
            Ok(())
        })
    }
    fn set_reuse_port(&mut self, _reuse: bool) -> IoResult<()> {
        Ok(())
    }
    fn set_header_included(&mut self, _included: bool) -> IoResult<()> {
        Ok(())
    }
    fn set_unicast_hops_v6(&mut self, hops: u8) -> IoResult<()> {
        with_world(|w| {
            if let Some(kind) = w.fault_for_send("set_ttl") {
                return Err(IoError::Other(io_err(&kind), IoOperation::SetUnicastHopsV6));
            }
            self.hops = hops;
            Ok(())
        })
    }
    fn connect(&mut self, address: SocketAddr) -> IoResult<()> {
        with_world(|w| {
            if let Some(kind) = w.fault_for_send("connect") {
                return Err(IoError::Connect(io_err(&kind), address));
            }
            self.peer = Some(address);
            if self.kind == Kind::Stream {
                let Some(k) = w.cur else { return Ok(()) };
                w.tcp.insert(self.id, TcpState { k, ready_at: None });
                let sport = self.bound.map_or(0, |b| b.port());
                let isn = w.rng.random::<u32>();
                let syn = wire::tcp_syn(w.src, address.ip(), sport, address.port(), isn);
                let datagram = match (w.src, address.ip()) {
                    (IpAddr::V4(s), IpAddr::V4(d)) => {
                        let id = w.rng.random::<u16>();
                        let mut p = wire::ipv4_header(s, d, wire::PROTO_TCP, self.ttl as u8, self.tos as u8, id, 0x4000, (20 + syn.len()) as u16).to_vec();
                        p.extend_from_slice(&syn);
                        p
                    }
                    (IpAddr::V6(s), IpAddr::V6(d)) => {
                        let mut p = wire::ipv6_header(s, d, wire::PROTO_TCP, self.hops, 0, 0, syn.len() as u16).to_vec();
                        p.extend_from_slice(&syn);
                        p
                    }
                    _ => return Ok(()),
                };
                w.on_wire(datagram, Some(self.id));
                self.opened = true;
                let (ready, out) = match w.tcp.get(&self.id).and_then(|s| s.ready_at.clone()) {
                    Some((t, TcpOutcome::Connected)) => (t as i64, "syn"),
                    Some((t, TcpOutcome::Refused)) => (t as i64, "rst"),
                    Some((t, TcpOutcome::Unreach(_))) => (t as i64, "unreach"),
                    None => (-1, "none"),
                };
                let t = w.now();
                w.ev(json!({"e":"tcp_open","sock":self.id,"k":k,"t":t,"ready":ready,"out":out}));
                // a non-blocking connect reports EINPROGRESS
                return Err(IoError::Connect(io_err("inprogress"), address));
            }
            Ok(())
        })
    }
    fn send_to(&mut self, buf: &[u8], addr: SocketAddr) -> IoResult<()> {
        with_world(|w| {
            if let Some(kind) = w.fault_for_send("send_to") {
                return Err(IoError::SendTo(io_err(&kind), addr));
            }
            let datagram: Vec<u8> = match (self.kind, self.fam, self.raw) {
                // IPv4 with IP_HDRINCL: the buffer is the whole datagram; the kernel fills in the
                // header checksum (a zero identification is left alone, see DESIGN.md)
                (Kind::IcmpSend, 4, _) | (Kind::UdpSend, 4, true) => {
                    let mut p = buf.to_vec();
                    if p.len() >= 20 {
                        wire::ipv4_fix_checksum(&mut p);
                    }
                    p
                }
                // IPv6 raw: the kernel prepends the IPv6 header
                (Kind::IcmpSend, 6, _) | (Kind::UdpSend, 6, true) => {
                    let next = if self.kind == Kind::IcmpSend { wire::PROTO_ICMPV6 } else { wire::PROTO_UDP };
                    let (IpAddr::V6(s), IpAddr::V6(d)) = (w.src, addr.ip()) else {
                        return Err(IoError::SendTo(io_err("invalid"), addr));
                    };
                    let mut p = wire::ipv6_header(s, d, next, self.hops, 0, 0, buf.len() as u16).to_vec();
                    p.extend_from_slice(buf);
                    p
                }
                // datagram sockets: the kernel builds IP and UDP headers
                (Kind::UdpSend, 4, false) => {
                    let (IpAddr::V4(s), IpAddr::V4(d)) = (w.src, addr.ip()) else {
                        return Err(IoError::SendTo(io_err("invalid"), addr));
                    };
                    let sport = self.bound.map_or(0, |b| b.port());
                    let udp = wire::udp_datagram_v4(s, d, sport, addr.port(), buf);
                    let id = w.rng.random::<u16>();
                    let mut p = wire::ipv4_header(s, d, wire::PROTO_UDP, self.ttl as u8, self.tos as u8, id, 0x4000, (20 + udp.len()) as u16).to_vec();
                    p.extend_from_slice(&udp);
                    p
                }
                (Kind::UdpSend, 6, false) => {
                    let (IpAddr::V6(s), IpAddr::V6(d)) = (w.src, addr.ip()) else {
                        return Err(IoError::SendTo(io_err("invalid"), addr));
                    };
                    let sport = self.bound.map_or(0, |b| b.port());
                    let udp = wire::udp_datagram_v6(s, d, sport, addr.port(), buf);
                    let mut p = wire::ipv6_header(s, d, wire::PROTO_UDP, self.hops, 0, 0, udp.len() as u16).to_vec();
                    p.extend_from_slice(&udp);
                    p
                }
                _ => return Ok(()),
            };
            w.on_wire(datagram, None);
            Ok(())
        })
    }
    fn is_readable(&mut self, timeout: Duration) -> IoResult<bool> {
        with_world(|w| w.is_readable(timeout))
    }
    fn is_writable(&mut self) -> IoResult<bool> {
        with_world(|w| {
            let now = w.now();
            Ok(w.tcp.get(&self.id).is_some_and(|s| s.ready_at.as_ref().is_some_and(|(t, _)| *t <= now)))
        })
    }
    fn recv_from(&mut self, buf: &mut [u8]) -> IoResult<(usize, Option<SocketAddr>)> {
        with_world(|w| {
            let (n, from) = w.pop(buf, IoOperation::RecvFrom)?;
            Ok((n, Some(SocketAddr::new(from, 0))))
        })
    }
    fn read(&mut self, buf: &mut [u8]) -> IoResult<usize> {
        with_world(|w| Ok(w.pop(buf, IoOperation::Read)?.0))
    }
    fn shutdown(&mut self) -> IoResult<()> {
        Ok(())
    }
    fn peer_addr(&mut self) -> IoResult<Option<SocketAddr>> {
        Ok(self.peer)
    }
    fn take_error(&mut self) -> IoResult<Option<SocketError>> {
        with_world(|w| {
            let Some(st) = w.tcp.remove(&self.id) else {
                return Ok(Some(SocketError::Other(io_err("other"))));
            };
            let target = code_of(w.target);
            let now = w.now();
            // a connect that has not completed has no pending error (SO_ERROR reads 0): nothing was handed over
            if st.ready_at.as_ref().is_none_or(|(t, _)| *t > now) {
                w.ev(json!({"e":"tcp_take","sock":self.id,"t":now,"done":false}));
                return Ok(None);
            }
            w.ev(json!({"e":"tcp_take","sock":self.id,"t":now,"done":true}));
            match st.ready_at {
                Some((_, TcpOutcome::Connected)) => {
                    w.log_delivery(&Origin::Resp(st.k), target, true, "syn", 0);
                    Ok(None)
                }
                Some((_, TcpOutcome::Refused)) => {
                    w.log_delivery(&Origin::Resp(st.k), target, true, "rst", 0);
                    Ok(Some(SocketError::ConnectionRefused))
                }
                Some((_, TcpOutcome::Unreach(router))) => {
                    w.log_delivery(&Origin::Resp(st.k), i64::from(router), false, "te", 0);
                    self.err_addr = Some(addr_of(router, w.sc.fam));
                    Ok(Some(SocketError::HostUnreachable))
                }
                None => Ok(Some(SocketError::Other(io_err("other")))),
            }
        })
    }
    fn icmp_error_info(&mut self) -> IoResult<IpAddr> {
        Ok(self.err_addr.unwrap_or(IpAddr::V4(Ipv4Addr::UNSPECIFIED)))
    }
}

// -------------------------------------------------------------------------------------------
// Network wrapper: logs every `send_probe` / `recv_probe` of the real `Channel`
// -------------------------------------------------------------------------------------------

pub struct NetWrap {
    inner: Channel<SimSocket>,
}

impl NetWrap {
    pub fn new(inner: Channel<SimSocket>) -> Self {
        Self { inner }
    }
}

impl Network for NetWrap {
    fn send_probe(&mut self, probe: Probe) -> Result<(), Error> {
        with_world(|w| w.begin_send(&probe));
        let r = self.inner.send_probe(probe);
        with_world(|w| w.end_send(&r));
        r
    }

    fn recv_probe(&mut self) -> Result<Option<Response>, Error> {
        self.inner.recv_probe()
    }
}
