//! Independent packet construction and decoding (RFC 791, 792, 768, 793, 8200, 4443, 4884, 4950, 1071).
//!
//! This module shares no code with `trippy-packet`.  It is the byte -> field abstraction that the
//! TLA+ `Wire` module reasons over, and the "router" side of the simulated network.

use std::net::{IpAddr, Ipv4Addr, Ipv6Addr};

/// RFC 1071 one's complement sum (not complemented) of a byte string, odd length padded with zero.
pub fn ones_sum(bytes: &[u8]) -> u32 {
    let mut sum: u32 = 0;
    let mut i = 0;
    while i + 1 < bytes.len() {
        sum += u32::from(bytes[i]) << 8 | u32::from(bytes[i + 1]);
        i += 2;
    }
    if i < bytes.len() {
        sum += u32::from(bytes[i]) << 8;
    }
    sum
}

pub fn fold(mut sum: u32) -> u16 {
    while sum >> 16 != 0 {
        sum = (sum & 0xffff) + (sum >> 16);
    }
    sum as u16
}

/// RFC 1071 checksum (complemented) over the concatenation of `parts` (all but the last must have
/// even length).
pub fn checksum(parts: &[&[u8]]) -> u16 {
    let mut sum = 0u32;
    for (i, p) in parts.iter().enumerate() {
        debug_assert!(i == parts.len() - 1 || p.len() % 2 == 0);
        sum += ones_sum(p);
        sum = u32::from(fold(sum));
    }
    !fold(sum)
}

pub fn pseudo_v4(src: Ipv4Addr, dst: Ipv4Addr, proto: u8, len: u16) -> Vec<u8> {
    let mut v = Vec::with_capacity(12);
    v.extend_from_slice(&src.octets());
    v.extend_from_slice(&dst.octets());
    v.push(0);
    v.push(proto);
    v.extend_from_slice(&len.to_be_bytes());
    v
}

pub fn pseudo_v6(src: Ipv6Addr, dst: Ipv6Addr, next: u8, len: u32) -> Vec<u8> {
    let mut v = Vec::with_capacity(40);
    v.extend_from_slice(&src.octets());
    v.extend_from_slice(&dst.octets());
    v.extend_from_slice(&len.to_be_bytes());
    v.extend_from_slice(&[0, 0, 0, next]);
    v
}

pub const PROTO_ICMP: u8 = 1;
pub const PROTO_TCP: u8 = 6;
pub const PROTO_UDP: u8 = 17;
pub const PROTO_ICMPV6: u8 = 58;

#[allow(clippy::too_many_arguments)]
pub fn ipv4_header(
    src: Ipv4Addr,
    dst: Ipv4Addr,
    proto: u8,
    ttl: u8,
    tos: u8,
    id: u16,
    flags_frag: u16,
    total_len: u16,
) -> [u8; 20] {
    let mut h = [0u8; 20];
    h[0] = 0x45;
    h[1] = tos;
    h[2..4].copy_from_slice(&total_len.to_be_bytes());
    h[4..6].copy_from_slice(&id.to_be_bytes());
    h[6..8].copy_from_slice(&flags_frag.to_be_bytes());
    h[8] = ttl;
    h[9] = proto;
    h[12..16].copy_from_slice(&src.octets());
    h[16..20].copy_from_slice(&dst.octets());
    let c = checksum(&[&h]);
    h[10..12].copy_from_slice(&c.to_be_bytes());
    h
}

pub fn ipv4_fix_checksum(pkt: &mut [u8]) {
    let ihl = usize::from(pkt[0] & 0xf) * 4;
    if ihl < 20 || pkt.len() < ihl {
        return;
    }
    pkt[10] = 0;
    pkt[11] = 0;
    let c = checksum(&[&pkt[..ihl]]);
    pkt[10..12].copy_from_slice(&c.to_be_bytes());
}

pub fn ipv6_header(
    src: Ipv6Addr,
    dst: Ipv6Addr,
    next: u8,
    hop: u8,
    tc: u8,
    flow: u32,
    payload_len: u16,
) -> [u8; 40] {
    let mut h = [0u8; 40];
    h[0] = 0x60 | (tc >> 4);
    h[1] = (tc << 4) | ((flow >> 16) as u8 & 0x0f);
    h[2] = (flow >> 8) as u8;
    h[3] = flow as u8;
    h[4..6].copy_from_slice(&payload_len.to_be_bytes());
    h[6] = next;
    h[7] = hop;
    h[8..24].copy_from_slice(&src.octets());
    h[24..40].copy_from_slice(&dst.octets());
    h
}

pub fn udp_datagram_v4(src: Ipv4Addr, dst: Ipv4Addr, sport: u16, dport: u16, payload: &[u8]) -> Vec<u8> {
    let len = (8 + payload.len()) as u16;
    let mut u = Vec::with_capacity(usize::from(len));
    u.extend_from_slice(&sport.to_be_bytes());
    u.extend_from_slice(&dport.to_be_bytes());
    u.extend_from_slice(&len.to_be_bytes());
    u.extend_from_slice(&[0, 0]);
    u.extend_from_slice(payload);
    let mut c = checksum(&[&pseudo_v4(src, dst, PROTO_UDP, len), &u]);
    if c == 0 {
        c = 0xffff;
    }
    u[6..8].copy_from_slice(&c.to_be_bytes());
    u
}

pub fn udp_datagram_v6(src: Ipv6Addr, dst: Ipv6Addr, sport: u16, dport: u16, payload: &[u8]) -> Vec<u8> {
    let len = (8 + payload.len()) as u16;
    let mut u = Vec::with_capacity(usize::from(len));
    u.extend_from_slice(&sport.to_be_bytes());
    u.extend_from_slice(&dport.to_be_bytes());
    u.extend_from_slice(&len.to_be_bytes());
    u.extend_from_slice(&[0, 0]);
    u.extend_from_slice(payload);
    let mut c = checksum(&[&pseudo_v6(src, dst, PROTO_UDP, u32::from(len)), &u]);
    if c == 0 {
        c = 0xffff;
    }
    u[6..8].copy_from_slice(&c.to_be_bytes());
    u
}

/// A TCP SYN segment as a kernel would emit for `connect()` (20-byte header + MSS option).
pub fn tcp_syn(src: IpAddr, dst: IpAddr, sport: u16, dport: u16, isn: u32) -> Vec<u8> {
    let mut t = vec![0u8; 24];
    t[0..2].copy_from_slice(&sport.to_be_bytes());
    t[2..4].copy_from_slice(&dport.to_be_bytes());
    t[4..8].copy_from_slice(&isn.to_be_bytes());
    t[12] = 6 << 4;
    t[13] = 0x02;
    t[14..16].copy_from_slice(&64240u16.to_be_bytes());
    t[20..24].copy_from_slice(&[2, 4, 0x05, 0xb4]);
    let c = match (src, dst) {
        (IpAddr::V4(s), IpAddr::V4(d)) => checksum(&[&pseudo_v4(s, d, PROTO_TCP, 24), &t]),
        (IpAddr::V6(s), IpAddr::V6(d)) => checksum(&[&pseudo_v6(s, d, PROTO_TCP, 24), &t]),
        _ => 0,
    };
    t[16..18].copy_from_slice(&c.to_be_bytes());
    t
}

// ---------------------------------------------------------------------------------------------
// ICMP extension structures (RFC 4884 / 4950)
// ---------------------------------------------------------------------------------------------

#[derive(Debug, Clone, PartialEq, Eq)]
pub struct MplsMember {
    pub label: u32,
    pub exp: u8,
    pub bos: u8,
    pub ttl: u8,
}

#[derive(Debug, Clone, PartialEq, Eq)]
pub enum ExtObject {
    Mpls(Vec<MplsMember>),
    Other { class: u8, ctype: u8, payload: Vec<u8> },
}

pub fn ext_object_bytes(o: &ExtObject) -> Vec<u8> {
    let (class, ctype, payload) = match o {
        ExtObject::Mpls(ms) => {
            let mut p = Vec::new();
            for m in ms {
                let w: u32 = (m.label & 0xfffff) << 12
                    | u32::from(m.exp & 7) << 9
                    | u32::from(m.bos & 1) << 8
                    | u32::from(m.ttl);
                p.extend_from_slice(&w.to_be_bytes());
            }
            (1u8, 1u8, p)
        }
        ExtObject::Other { class, ctype, payload } => (*class, *ctype, payload.clone()),
    };
    let len = (4 + payload.len()) as u16;
    let mut v = Vec::new();
    v.extend_from_slice(&len.to_be_bytes());
    v.push(class);
    v.push(ctype);
    v.extend_from_slice(&payload);
    v
}

/// Build an RFC 4884 extension structure (version 2) with a valid checksum.
pub fn ext_structure(objects: &[ExtObject]) -> Vec<u8> {
    let mut v = vec![0x20, 0, 0, 0];
    for o in objects {
        v.extend_from_slice(&ext_object_bytes(o));
    }
    let c = checksum(&[&v]);
    v[2..4].copy_from_slice(&c.to_be_bytes());
    v
}

#[derive(Debug, Clone, Copy, PartialEq, Eq)]
pub enum ExtForm {
    /// No extension; quoted datagram as is; length field zero.
    None,
    /// RFC 4884 compliant: length field set, datagram zero padded to >= 128 octets.
    Compliant,
    /// Pre-RFC 4884: length field zero, datagram padded to exactly 128 octets, extension follows.
    Legacy,
}

/// ICMPv4 error message (Time Exceeded 11 / Destination Unreachable 3).
pub fn icmp4_error(typ: u8, code: u8, quoted: &[u8], form: ExtForm, ext: &[u8]) -> Vec<u8> {
    let mut m = vec![typ, code, 0, 0, 0, 0, 0, 0];
    match form {
        ExtForm::None => m.extend_from_slice(quoted),
        ExtForm::Compliant => {
            let mut q = quoted.to_vec();
            // RFC 1812: an ICMPv4 error does not exceed 576 octets; the length attribute counts 32-bit words
            q.truncate(576 - 20 - 8 - ext.len());
            while q.len() < 128 || q.len() % 4 != 0 {
                q.push(0);
            }
            m[5] = (q.len() / 4) as u8;
            m.extend_from_slice(&q);
            m.extend_from_slice(ext);
        }
        ExtForm::Legacy => {
            let mut q = quoted.to_vec();
            q.truncate(128);
            while q.len() < 128 {
                q.push(0);
            }
            m.extend_from_slice(&q);
            m.extend_from_slice(ext);
        }
    }
    let c = checksum(&[&m]);
    m[2..4].copy_from_slice(&c.to_be_bytes());
    m
}

/// ICMPv6 error message (Time Exceeded 3 / Destination Unreachable 1).
pub fn icmp6_error(
    src: Ipv6Addr,
    dst: Ipv6Addr,
    typ: u8,
    code: u8,
    quoted: &[u8],
    form: ExtForm,
    ext: &[u8],
) -> Vec<u8> {
    let mut m = vec![typ, code, 0, 0, 0, 0, 0, 0];
    match form {
        ExtForm::None => m.extend_from_slice(quoted),
        ExtForm::Compliant => {
            let mut q = quoted.to_vec();
            // RFC 4443: an ICMPv6 error does not exceed the minimum MTU (1280 octets)
            q.truncate((1280 - 40 - 8 - ext.len()) / 8 * 8);
            while q.len() < 128 || q.len() % 8 != 0 {
                q.push(0);
            }
            m[4] = (q.len() / 8) as u8;
            m.extend_from_slice(&q);
            m.extend_from_slice(ext);
        }
        ExtForm::Legacy => {
            let mut q = quoted.to_vec();
            q.truncate(128);
            while q.len() < 128 {
                q.push(0);
            }
            m.extend_from_slice(&q);
            m.extend_from_slice(ext);
        }
    }
    let c = checksum(&[&pseudo_v6(src, dst, PROTO_ICMPV6, m.len() as u32), &m]);
    m[2..4].copy_from_slice(&c.to_be_bytes());
    m
}

pub fn icmp4_echo_reply(id: u16, seq: u16, payload: &[u8]) -> Vec<u8> {
    let mut m = vec![0u8, 0, 0, 0];
    m.extend_from_slice(&id.to_be_bytes());
    m.extend_from_slice(&seq.to_be_bytes());
    m.extend_from_slice(payload);
    let c = checksum(&[&m]);
    m[2..4].copy_from_slice(&c.to_be_bytes());
    m
}

pub fn icmp6_echo_reply(src: Ipv6Addr, dst: Ipv6Addr, id: u16, seq: u16, payload: &[u8]) -> Vec<u8> {
    let mut m = vec![129u8, 0, 0, 0];
    m.extend_from_slice(&id.to_be_bytes());
    m.extend_from_slice(&seq.to_be_bytes());
    m.extend_from_slice(payload);
    let c = checksum(&[&pseudo_v6(src, dst, PROTO_ICMPV6, m.len() as u32), &m]);
    m[2..4].copy_from_slice(&c.to_be_bytes());
    m
}

// ---------------------------------------------------------------------------------------------
// Decoder of outbound datagrams
// ---------------------------------------------------------------------------------------------

/// The abstract header record of an outbound probe datagram plus validity flags.
#[derive(Debug, Clone, Default, serde::Serialize)]
pub struct Decoded {
    pub fam: u8,
    pub src: String,
    pub dst: String,
    pub ttl: u8,
    pub tos: u8,
    pub df: bool,
    pub ip_id: u16,
    pub proto: u8,
    pub total_len: usize,
    pub sport: u16,
    pub dport: u16,
    pub udp_len: u16,
    pub udp_sum: u16,
    pub icmp_type: u8,
    pub icmp_code: u8,
    pub icmp_id: u16,
    pub icmp_seq: u16,
    pub payload_len: usize,
    /// All payload bytes are equal to this (or `-1`).
    pub pattern: i32,
    pub magic: bool,
    /// First two payload octets (Paris carries the original checksum there).
    pub payload_head: u16,
    pub ok_len: bool,
    pub ok_ip_sum: bool,
    pub ok_l4_sum: bool,
    pub syn: bool,
}

fn uniform(p: &[u8]) -> i32 {
    match p.first() {
        None => -2,
        Some(&b) if p.iter().all(|&x| x == b) => i32::from(b),
        _ => -1,
    }
}

pub fn decode_outbound(pkt: &[u8]) -> Option<Decoded> {
    let ver = pkt.first()? >> 4;
    let mut d = Decoded::default();
    let l4: &[u8];
    let pseudo: Vec<u8>;
    if ver == 4 {
        if pkt.len() < 20 {
            return None;
        }
        let ihl = usize::from(pkt[0] & 0xf) * 4;
        d.fam = 4;
        d.tos = pkt[1];
        let tl = usize::from(u16::from_be_bytes([pkt[2], pkt[3]]));
        d.total_len = tl;
        d.ip_id = u16::from_be_bytes([pkt[4], pkt[5]]);
        d.df = pkt[6] & 0x40 != 0 && pkt[6] & 0x20 == 0 && (u16::from_be_bytes([pkt[6], pkt[7]]) & 0x1fff) == 0;
        d.ttl = pkt[8];
        d.proto = pkt[9];
        let s = Ipv4Addr::new(pkt[12], pkt[13], pkt[14], pkt[15]);
        let t = Ipv4Addr::new(pkt[16], pkt[17], pkt[18], pkt[19]);
        d.src = s.to_string();
        d.dst = t.to_string();
        d.ok_len = ihl == 20 && tl == pkt.len();
        d.ok_ip_sum = ihl <= pkt.len() && fold(ones_sum(&pkt[..ihl])) == 0xffff;
        if ihl > pkt.len() {
            return Some(d);
        }
        l4 = &pkt[ihl..];
        pseudo = pseudo_v4(s, t, d.proto, l4.len() as u16);
    } else if ver == 6 {
        if pkt.len() < 40 {
            return None;
        }
        d.fam = 6;
        d.tos = (pkt[0] << 4) | (pkt[1] >> 4);
        let pl = usize::from(u16::from_be_bytes([pkt[4], pkt[5]]));
        d.total_len = 40 + pl;
        d.proto = pkt[6];
        d.ttl = pkt[7];
        let mut a = [0u8; 16];
        a.copy_from_slice(&pkt[8..24]);
        let s = Ipv6Addr::from(a);
        a.copy_from_slice(&pkt[24..40]);
        let t = Ipv6Addr::from(a);
        d.src = s.to_string();
        d.dst = t.to_string();
        d.ok_len = 40 + pl == pkt.len();
        d.ok_ip_sum = true;
        d.df = true;
        l4 = &pkt[40..];
        pseudo = pseudo_v6(s, t, d.proto, l4.len() as u32);
    } else {
        return None;
    }
    match d.proto {
        PROTO_ICMP | PROTO_ICMPV6 => {
            if l4.len() < 8 {
                d.ok_len = false;
                return Some(d);
            }
            d.icmp_type = l4[0];
            d.icmp_code = l4[1];
            d.icmp_id = u16::from_be_bytes([l4[4], l4[5]]);
            d.icmp_seq = u16::from_be_bytes([l4[6], l4[7]]);
            let p = &l4[8..];
            d.payload_len = p.len();
            d.pattern = uniform(p);
            d.ok_l4_sum = if d.proto == PROTO_ICMP {
                fold(ones_sum(l4)) == 0xffff
            } else {
                fold(ones_sum(&pseudo) + u32::from(fold(ones_sum(l4)))) == 0xffff
            };
        }
        PROTO_UDP => {
            if l4.len() < 8 {
                d.ok_len = false;
                return Some(d);
            }
            d.sport = u16::from_be_bytes([l4[0], l4[1]]);
            d.dport = u16::from_be_bytes([l4[2], l4[3]]);
            d.udp_len = u16::from_be_bytes([l4[4], l4[5]]);
            d.udp_sum = u16::from_be_bytes([l4[6], l4[7]]);
            d.ok_len = d.ok_len && usize::from(d.udp_len) == l4.len();
            let p = &l4[8..];
            d.payload_len = p.len();
            d.pattern = uniform(p);
            d.magic = p.starts_with(b"trippy");
            if d.magic {
                d.pattern = uniform(&p[6..]);
            }
            if p.len() >= 2 {
                d.payload_head = u16::from_be_bytes([p[0], p[1]]);
            }
            d.ok_l4_sum = fold(ones_sum(&pseudo) + u32::from(fold(ones_sum(l4)))) == 0xffff;
        }
        PROTO_TCP => {
            if l4.len() < 20 {
                d.ok_len = false;
                return Some(d);
            }
            d.sport = u16::from_be_bytes([l4[0], l4[1]]);
            d.dport = u16::from_be_bytes([l4[2], l4[3]]);
            d.syn = l4[13] & 0x02 != 0;
            d.ok_l4_sum = fold(ones_sum(&pseudo) + u32::from(fold(ones_sum(l4)))) == 0xffff;
        }
        _ => {}
    }
    Some(d)
}
