//! Seeded scenario generators, one per scenario family.

use crate::scenario::{Fault, Hop, MplsMember2, Path, Scenario, Topo};
use rand::rngs::StdRng;
use rand::{Rng, SeedableRng};

/// The supported configuration cells: (proto, strat, ports, privileged-allowed, unprivileged-allowed).
pub const CELLS: &[(&str, &str, &str, bool)] = &[
    ("icmp", "classic", "none", true),
    ("udp", "classic", "src", true),
    ("udp", "classic", "dest", true),
    ("udp", "paris", "src", false),
    ("udp", "paris", "dest", false),
    ("udp", "paris", "both", false),
    ("udp", "dublin", "src", false),
    ("udp", "dublin", "dest", false),
    ("udp", "dublin", "both", false),
    ("tcp", "classic", "src", false),
    ("tcp", "classic", "dest", false),
];

fn pick<'a, T>(rng: &mut StdRng, xs: &'a [T]) -> &'a T {
    &xs[rng.random_range(0..xs.len())]
}

pub fn random_path(rng: &mut StdRng, path_no: u16, max_len: u8, fancy: bool) -> Path {
    let dist: u8 = match rng.random_range(0..10) {
        0 => 1,
        1..=6 => rng.random_range(2..=8.min(max_len.max(2))),
        7 | 8 => rng.random_range(1..=max_len.max(1)),
        _ => 0,
    };
    let nhops = if dist == 0 { rng.random_range(0..=6.min(max_len)) } else { dist - 1 };
    let mut hops = Vec::new();
    for i in 0..nhops {
        let mut h = Hop {
            addr: (path_no + 1) * 300 + u16::from(i) + 1,
            ..Hop::default()
        };
        if fancy {
            match rng.random_range(0..12) {
                0 => h.silent = true,
                1 => h.loss = 50,
                2 => h.dup = true,
                _ => {}
            }
            h.quote = *pick(rng, &[0, 0, 1, 1, 2, 3, 4]);
            if h.quote >= 2 && h.quote <= 3 && rng.random_bool(0.7) {
                let n = rng.random_range(1..=3);
                for j in 0..n {
                    h.mpls.push(MplsMember2 {
                        label: rng.random_range(0..(1 << 20)),
                        exp: rng.random_range(0..8),
                        bos: u8::from(j == n - 1),
                        ttl: rng.random(),
                    });
                }
            }
            if rng.random_range(0..8) == 0 {
                h.tos_rewrite = rng.random_range(1..=255);
            }
            // a filtering router: Destination Unreachable from an intermediate hop
            h.du = rng.random_range(0..14) == 0;
        }
        hops.push(h);
    }
    // shared first hop between branches (typical ECMP shape)
    if let Some(h) = hops.first_mut() {
        h.addr = 257;
    }
    Path {
        hops,
        dist,
        target_silent: dist > 0 && fancy && rng.random_range(0..12) == 0,
        tcp: if rng.random_bool(0.5) { "synack".into() } else { "rst".into() },
    }
}

fn base(rng: &mut StdRng, id: String, seed: u64) -> Scenario {
    let mut sc = Scenario {
        id,
        seed,
        ..Scenario::default()
    };
    let cell = pick(rng, CELLS);
    sc.proto = cell.0.into();
    sc.strat = cell.1.into();
    sc.ports = cell.2.into();
    sc.fam = *pick(rng, &[4, 6]);
    sc.privileged = if cell.3 { rng.random_bool(0.7) } else { true };
    sc.sport = rng.random_range(1024..60000);
    sc.dport = rng.random_range(1024..60000);
    sc.ext = rng.random_bool(0.5);
    sc.trace_id = rng.random_range(1..=u16::MAX);
    sc.init_seq = *pick(rng, &[33434, 33434, 0, 1, 1000, 50000]);
    sc.packet_size = match (sc.fam, sc.proto.as_str()) {
        (4, _) => *pick(rng, &[28, 29, 56, 84, 84, 200, 1023, 1024]),
        _ => *pick(rng, &[48, 49, 84, 84, 200, 1023, 1024]),
    };
    sc.pattern = *pick(rng, &[0, 0, 0x55, 0xff, 7]);
    sc.tos = *pick(rng, &[0, 0, 0x10, 0xb8, 0xff]);
    sc
}

/// Round-loop family: C01 C06 C08 C10 (and the no-fault half of C09).
pub fn gen_loop(seed: u64, n: usize, family: &str) -> Vec<Scenario> {
    let mut rng = StdRng::seed_from_u64(seed ^ 0x5eed_0001);
    let mut out = Vec::new();
    for i in 0..n {
        let s = rng.random::<u64>();
        let mut sc = base(&mut rng, format!("{family}-{seed}-{i}"), s);
        sc.max_ttl = *pick(&mut rng, &[4, 8, 12, 16, 30, 64, 254]);
        sc.first_ttl = if rng.random_range(0..4) == 0 { rng.random_range(1..=sc.max_ttl.min(6)) } else { 1 };
        sc.max_inflight = *pick(&mut rng, &[1, 2, 3, 5, 8, 24, 24, 255]);
        // keep first-ttl below max-inflight in this family (F8 belongs to the C06 family only)
        if sc.first_ttl >= sc.max_inflight {
            sc.max_inflight = sc.first_ttl + 1;
        }
        let npaths = *pick(&mut rng, &[1, 1, 1, 2, 3]);
        // now and then the target lies beyond max-ttl: the hop at max-ttl is the farthest that is ever probed
        let maxlen = if rng.random_range(0..6) == 0 { sc.max_ttl.saturating_add(6).min(26) } else { sc.max_ttl.min(20) };
        sc.topo = Topo {
            paths: (0..npaths).map(|p| random_path(&mut rng, p, maxlen, true)).collect(),
            ..Topo::default()
        };
        if rng.random_range(0..6) == 0 {
            sc.topo.change_round = rng.random_range(1..4);
            sc.topo.paths_after = (0..npaths).map(|p| random_path(&mut rng, p + 5, maxlen, true)).collect();
        }
        sc.max_rounds = rng.random_range(2..=8);
        let unit = *pick(&mut rng, &[1_000u64, 10_000, 10_000, 50_000]);
        sc.read_timeout_us = unit;
        sc.max_round_us = unit * rng.random_range(5..60);
        sc.min_round_us = if rng.random_bool(0.5) { sc.max_round_us } else { unit * rng.random_range(0..5) };
        sc.min_round_us = sc.min_round_us.min(sc.max_round_us);
        sc.grace_us = unit * rng.random_range(0..6);
        sc.tcp_timeout_us = sc.max_round_us;
        sc.net.hop_delay_us = *pick(&mut rng, &[100, 1_000, 3_000, unit]);
        if sc.proto == "tcp" && rng.random_bool(0.5) {
            // a connect timeout of a few hop delays: the sockets of probes answered by routers (ICMP) expire while
            // the sockets of later probes are still connecting or have just connected
            sc.tcp_timeout_us = sc.net.hop_delay_us * rng.random_range(2..14);
        }
        if sc.proto == "tcp" {
            sc.net.tcp_sockerr_pct = *pick(&mut rng, &[0, 0, 40]);
        }
        sc.net.jitter_us = *pick(&mut rng, &[0, 500, 5_000, unit * 3]);
        sc.net.loss = *pick(&mut rng, &[0, 0, 5, 30]);
        sc.net.dup_pct = *pick(&mut rng, &[0, 0, 10]);
        sc.net.late_pct = *pick(&mut rng, &[0, 0, 10]);
        sc.net.late_us = sc.max_round_us + unit * 2;
        sc.max_samples = *pick(&mut rng, &[0, 1, 3, 256]);
        sc.max_flows = *pick(&mut rng, &[1, 2, 64]);
        out.push(sc);
    }
    out
}

/// Noise family (C03): foreign, never-sent, duplicate and late responses, many rounds, wrap-around.
pub fn gen_noise(seed: u64, n: usize) -> Vec<Scenario> {
    let mut v = gen_loop(seed ^ 0x0153, n, "noise");
    let mut rng = StdRng::seed_from_u64(seed ^ 0x5eed_0003);
    for sc in &mut v {
        sc.noise.foreign_pct = *pick(&mut rng, &[20, 50]);
        // the other tracer of the pair may be the one the command line gave identifier 0 (pid % 65535 = 0, or
        // pid + i wrapping): its responses carry identifier zero
        sc.noise.foreign_zero_id = sc.proto == "icmp" && rng.random_range(0..3) == 0;
        sc.noise.never_pct = *pick(&mut rng, &[0, 0, 20]);
        sc.noise.garbage_pct = *pick(&mut rng, &[0, 10]);
        sc.net.dup_pct = *pick(&mut rng, &[10, 30]);
        sc.net.late_pct = *pick(&mut rng, &[10, 20]);
        sc.max_rounds = rng.random_range(4..=12);
        // wrap-around: start close to the largest allowed initial sequence
        if rng.random_range(0..3) == 0 {
            sc.init_seq = *pick(&mut rng, &[64511, 64400, 63999]);
            // long enough to wrap and keep going: after the wrap the buffer still holds unanswered probes of the first
            // lap under the very sequence numbers that are now being re-used
            sc.max_rounds = 70;
            sc.noise.never_pct = 25;
            sc.max_round_us = sc.read_timeout_us * 6;
            sc.min_round_us = sc.min_round_us.min(sc.max_round_us);
            sc.net.late_us = sc.max_round_us + sc.read_timeout_us * 2;
        }
    }
    v
}

/// Fault family (C09): send / receive failures at random points.
pub fn gen_fault(seed: u64, n: usize) -> Vec<Scenario> {
    let mut v = gen_loop(seed ^ 0x0909, n, "fault");
    let mut rng = StdRng::seed_from_u64(seed ^ 0x5eed_0009);
    for sc in &mut v {
        sc.net.late_pct = 0;
        sc.net.fail_cost_us = *pick(&mut rng, &[0, 0, 250, 900]);
        let nf = rng.random_range(1..=4);
        // now and then the very first probe of the trace is the one that fails: the lowest ttl ever probed is then
        // the ttl of a probe that never went out
        let first_fails = rng.random_range(0..4) == 0;
        for j in 0..nf {
            let at_send = if first_fails && j == 0 { 0 } else { rng.random_range(0..30) };
            let (op, kinds): (&str, &[&str]) = match (sc.proto.as_str(), sc.fam, sc.privileged) {
                ("icmp", 4, _) => ("send_to", &["hostunreach", "netunreach", "invalid", "other"]),
                ("udp", 4, true) => ("send_to", &["hostunreach", "netunreach", "other"]),
                ("udp", 4, false) => ("bind", &["addrnotavail", "addrinuse", "other"]),
                ("tcp", 4, _) => *pick(&mut rng, &[("bind", &["addrnotavail", "addrinuse", "addrinuse", "other"][..]), ("connect", &["netunreach", "addrinuse", "other"][..])]),
                ("tcp", _, _) => ("bind", &["addrinuse", "addrinuse", "other"]),
                (_, _, _) => ("send_to", &["other"]),
            };
            let kind = *pick(&mut rng, kinds);
            sc.faults.push(Fault {
                at_send,
                from_send: 0,
                until_send: 0,
                at_recv: -1,
                op: op.into(),
                kind: kind.into(),
            });
        }
        if sc.fam == 4 && rng.random_range(0..5) == 0 {
            // an outage: every send of a stretch covering at least one whole round fails transiently
            let (op, kind) = match (sc.proto.as_str(), sc.privileged) {
                ("udp", false) => ("bind", "addrnotavail"),
                ("tcp", _) => ("connect", "netunreach"),
                _ => ("send_to", *pick(&mut rng, &["hostunreach", "netunreach"])),
            };
            let from = rng.random_range(1..40);
            sc.faults.push(Fault { at_send: -1, from_send: from, until_send: from + rng.random_range(20..120), at_recv: -1, op: op.into(), kind: kind.into() });
        }
        if rng.random_range(0..5) == 0 {
            sc.faults.push(Fault {
                at_send: -1,
                from_send: 0,
                until_send: 0,
                at_recv: rng.random_range(0..200),
                op: (*pick(&mut rng, &["select", "read"])).into(),
                kind: (*pick(&mut rng, &["other", "wouldblock"])).into(),
            });
        }
    }
    v
}

/// Timing family (C08): all orderings of min / max / grace / read-timeout including zeros.
pub fn gen_timing(seed: u64, n: usize) -> Vec<Scenario> {
    let mut v = gen_loop(seed ^ 0x0808, n, "timing");
    let mut rng = StdRng::seed_from_u64(seed ^ 0x5eed_0008);
    for sc in &mut v {
        let unit = *pick(&mut rng, &[1_000u64, 2_000, 10_000]);
        sc.read_timeout_us = *pick(&mut rng, &[0, 500, unit, unit, unit * 3]);
        sc.max_round_us = unit * rng.random_range(0..20);
        sc.min_round_us = (unit * rng.random_range(0..20)).min(sc.max_round_us);
        sc.grace_us = unit * rng.random_range(0..8);
        sc.net.hop_delay_us = *pick(&mut rng, &[0, 300, unit, unit * 2]);
        sc.net.jitter_us = *pick(&mut rng, &[0, unit, unit * 5]);
        sc.net.late_us = sc.max_round_us + unit;
        sc.max_rounds = rng.random_range(2..=6);
        sc.tcp_timeout_us = sc.max_round_us.max(unit);
        // a busy loop on a zero timeout must still terminate
        sc.max_recv_calls = 400_000;
    }
    v
}

/// Scheduling family (C06): large TTL ranges and windows, including first-ttl >= max-inflight.
pub fn gen_sched(seed: u64, n: usize) -> Vec<Scenario> {
    let mut v = gen_loop(seed ^ 0x0606, n, "sched");
    let mut rng = StdRng::seed_from_u64(seed ^ 0x5eed_0006);
    for sc in &mut v {
        sc.max_ttl = *pick(&mut rng, &[1, 2, 5, 30, 64, 128, 254]);
        sc.first_ttl = match rng.random_range(0..4) {
            0 => rng.random_range(1..=sc.max_ttl),
            1 => sc.max_ttl,
            _ => 1,
        };
        sc.max_inflight = *pick(&mut rng, &[1, 1, 2, 4, 24, 100, 255]);
        let maxlen = sc.max_ttl.min(40);
        let npaths = sc.topo.paths.len() as u16;
        sc.topo.paths = (0..npaths).map(|p| random_path(&mut rng, p, maxlen, true)).collect();
        sc.read_timeout_us = 1_000;
        sc.max_round_us = *pick(&mut rng, &[20_000, 100_000, 400_000]);
        sc.min_round_us = sc.min_round_us.min(sc.max_round_us);
        sc.net.late_us = sc.max_round_us + 2_000;
        sc.tcp_timeout_us = sc.max_round_us;
    }
    v
}

/// Storm family (C07): TCP port collisions from some send onwards exhaust the round's sequence budget.
pub fn gen_storm(seed: u64, n: usize) -> Vec<Scenario> {
    let mut v = gen_loop(seed ^ 0x0707, n, "storm");
    let mut rng = StdRng::seed_from_u64(seed ^ 0x5eed_0007);
    for sc in &mut v {
        sc.proto = "tcp".into();
        sc.strat = "classic".into();
        sc.ports = (*pick(&mut rng, &["src", "dest"])).into();
        sc.privileged = true;
        sc.faults.clear();
        sc.faults.push(Fault {
            at_send: -1,
            from_send: rng.random_range(1..40),
            until_send: 0,
            at_recv: -1,
            op: (*pick(&mut rng, &["bind", "connect"])).into(),
            kind: "addrinuse".into(),
        });
        sc.init_seq = *pick(&mut rng, &[0, 33434, 63999, 64511]);
        sc.max_rounds = 4;
        if rng.random_bool(0.5) {
            // the storm stops so that the last sequence number of the budget (offset 511) is sent
            // successfully in round 0 while further TTLs remain to be probed
            let j = rng.random_range(1..4);
            sc.faults[0].from_send = j;
            sc.faults[0].until_send = 511;
            sc.max_ttl = 30;
            sc.first_ttl = 1;
            sc.max_inflight = 24;
            for p in &mut sc.topo.paths {
                // nothing answers before the budget is exhausted
                p.dist = 0;
                for h in &mut p.hops {
                    h.silent = true;
                }
            }
        }
    }
    v
}

/// NAT family (C19): IPv4/UDP/Dublin over a single path with 0..3 rewriting devices and silent hops,
/// plus other configurations over the same kind of path (which must report not-applicable).
pub fn gen_nat(seed: u64, n: usize) -> Vec<Scenario> {
    let mut v = gen_loop(seed ^ 0x1919, n, "nat");
    let mut rng = StdRng::seed_from_u64(seed ^ 0x5eed_0019);
    for sc in &mut v {
        if rng.random_range(0..10) < 7 {
            sc.fam = 4;
            sc.proto = "udp".into();
            sc.strat = "dublin".into();
            sc.ports = (*pick(&mut rng, &["src", "dest", "both"])).into();
            sc.privileged = true;
            sc.packet_size = *pick(&mut rng, &[28, 29, 56, 84, 200, 1024]);
        }
        let dist = rng.random_range(2..=10u8);
        let mut path = random_path(&mut rng, 0, dist, false);
        path.dist = dist;
        path.hops.truncate(usize::from(dist) - 1);
        while path.hops.len() < usize::from(dist) - 1 {
            let i = path.hops.len() as u16;
            path.hops.push(Hop {
                addr: 300 + i + 1,
                ..Hop::default()
            });
        }
        let ndev = *pick(&mut rng, &[0, 0, 1, 1, 2, 3]);
        for d in 0..ndev {
            let at = rng.random_range(0..path.hops.len().max(1));
            if let Some(h) = path.hops.get_mut(at) {
                h.nat = 10 + d;
                h.nat_keep_src = rng.random_bool(0.4);
            }
        }
        for h in &mut path.hops {
            if rng.random_range(0..5) == 0 {
                h.silent = true;
            }
            h.quote = *pick(&mut rng, &[0, 1, 4]);
        }
        sc.topo = Topo {
            paths: vec![path],
            ..Topo::default()
        };
        sc.max_ttl = 16;
        sc.first_ttl = *pick(&mut rng, &[1, 1, 2, 3]);
        sc.max_inflight = 24;
        sc.net.loss = *pick(&mut rng, &[0, 10]);
        sc.net.late_pct = 0;
        sc.snap = "full".into();
        sc.max_rounds = rng.random_range(2..=5);
    }
    v
}

/// Codec family (C02 / C11): a systematic sweep of configuration cell x family x privilege x quotation
/// form x boundary initial sequences, sizes, tos and patterns, with foreign datagrams injected.
pub fn gen_codec(seed: u64, n: usize) -> Vec<Scenario> {
    let mut rng = StdRng::seed_from_u64(seed ^ 0x5eed_0002);
    let mut combos = Vec::new();
    for cell in CELLS {
        for fam in [4u8, 6] {
            for privileged in [true, false] {
                if !privileged && !cell.3 {
                    continue;
                }
                for quote in [0u8, 1, 2, 3, 4] {
                    combos.push((cell, fam, privileged, quote));
                }
            }
        }
    }
    let inits = [0u16, 1, 255, 256, 32767, 33434, 50000, 63999, 64000, 64511];
    let start = (seed as usize).wrapping_mul(7919) % combos.len();
    (0..n)
        .map(|i| {
            let (cell, fam, privileged, quote) = combos[(start + i) % combos.len()];
            let mut sc = Scenario {
                id: format!("codec-{seed}-{i}"),
                seed: rng.random(),
                ..Scenario::default()
            };
            sc.proto = cell.0.into();
            sc.strat = cell.1.into();
            sc.ports = cell.2.into();
            sc.fam = fam;
            sc.privileged = privileged;
            sc.sport = *pick(&mut rng, &[1024, 5000, 33434, 65535]);
            sc.dport = *pick(&mut rng, &[1, 80, 33434, 65535]);
            sc.ext = rng.random_bool(0.5);
            sc.trace_id = *pick(&mut rng, &[1, 2, 255, 256, 4660, 65535]);
            sc.init_seq = inits[(i / combos.len() + i) % inits.len()];
            sc.packet_size = if fam == 4 { *pick(&mut rng, &[28, 29, 30, 56, 84, 127, 128, 200, 576, 1023, 1024]) } else { *pick(&mut rng, &[48, 49, 50, 84, 128, 200, 576, 1023, 1024]) };
            sc.pattern = *pick(&mut rng, &[0, 1, 0x55, 0xaa, 0xff]);
            sc.tos = *pick(&mut rng, &[0, 1, 0x10, 0xb8, 0xfe, 0xff]);
            let dist = rng.random_range(2..=7u8);
            let mut hops = Vec::new();
            for h in 0..dist - 1 {
                let mut hop = Hop {
                    addr: 300 + u16::from(h) + 1,
                    quote,
                    ..Hop::default()
                };
                if rng.random_range(0..3) == 0 {
                    hop.tos_rewrite = rng.random_range(1..=255);
                }
                if quote == 2 || quote == 3 {
                    let m = rng.random_range(0..=3);
                    for j in 0..m {
                        hop.mpls.push(MplsMember2 {
                            label: rng.random_range(0..(1 << 20)),
                            exp: rng.random_range(0..8),
                            bos: u8::from(j == m - 1),
                            ttl: rng.random(),
                        });
                    }
                }
                hops.push(hop);
            }
            sc.topo = Topo {
                paths: vec![Path {
                    hops,
                    dist,
                    target_silent: false,
                    tcp: if rng.random_bool(0.5) { "synack".into() } else { "rst".into() },
                }],
                ..Topo::default()
            };
                sc.first_ttl = *pick(&mut rng, &[1, 1, 2]);
            sc.max_ttl = *pick(&mut rng, &[8, 30, 254]);
            sc.max_inflight = 24;
            sc.max_rounds = 3;
            sc.read_timeout_us = 1_000;
            sc.max_round_us = 40_000;
            sc.min_round_us = 5_000;
            sc.grace_us = 2_000;
            sc.tcp_timeout_us = 40_000;
            sc.net.hop_delay_us = 500;
            sc.net.jitter_us = 300;
            sc.noise.foreign_pct = 40;
            sc.log_wire = true;
            sc.snap = "lite".into();
            sc
        })
        .collect()
}

/// Malformed-input family (C04, full stack): mutated and truncated copies of valid responses reach the
/// running tracer through the real Channel and Strategy in every configuration cell.
pub fn gen_fuzzloop(seed: u64, n: usize) -> Vec<Scenario> {
    let mut v = gen_loop(seed ^ 0x0404, n, "fuzzloop");
    let mut rng = StdRng::seed_from_u64(seed ^ 0x5eed_0004);
    for (i, sc) in v.iter_mut().enumerate() {
        let cell = CELLS[i % CELLS.len()];
        sc.proto = cell.0.into();
        sc.strat = cell.1.into();
        sc.ports = cell.2.into();
        sc.privileged = true;
        sc.fam = if (i / CELLS.len()) % 2 == 0 { 4 } else { 6 };
        sc.ext = rng.random_bool(0.5);
        sc.noise.mutant_pct = 80;
        sc.noise.garbage_pct = 20;
        sc.noise.never_pct = 10;
        sc.max_rounds = 6;
        sc.snap = "lite".into();
    }
    v
}

/// Builder-alone family (C16): every parameter at its boundaries, including values the command-line
/// layer would reject; whatever `Builder::build` accepts must run over a plain, fully answering path.
pub fn gen_cfgrun(seed: u64, n: usize) -> Vec<Scenario> {
    let mut rng = StdRng::seed_from_u64(seed ^ 0x5eed_0c16);
    let mut out = Vec::new();
    for i in 0..n {
        let s = rng.random::<u64>();
        let mut sc = Scenario { id: format!("cfgrun-{seed}-{i}"), seed: s, ..Scenario::default() };
        sc.proto = (*pick(&mut rng, &["icmp", "udp", "tcp"])).into();
        sc.strat = (*pick(&mut rng, &["classic", "classic", "paris", "dublin"])).into();
        sc.ports = (*pick(&mut rng, &["none", "src", "dest", "both"])).into();
        sc.fam = *pick(&mut rng, &[4, 6]);
        sc.privileged = rng.random_bool(0.7);
        sc.sport = *pick(&mut rng, &[0, 1, 1023, 1024, 33000, 65535]);
        sc.dport = *pick(&mut rng, &[0, 1, 80, 33434, 65535]);
        sc.ext = rng.random_bool(0.5);
        sc.trace_id = *pick(&mut rng, &[0, 1, 1234, 65535]);
        // one or two parameters at a boundary, the rest ordinary: a rejected parameter must not mask the others
        sc.first_ttl = 1;
        sc.max_ttl = *pick(&mut rng, &[4, 8, 64]);
        sc.max_inflight = 24;
        for _ in 0..rng.random_range(0..3) {
            match rng.random_range(0..9) {
                0 => sc.first_ttl = *pick(&mut rng, &[0, 2, 5, 64, 254, 255]),
                1 => sc.max_ttl = *pick(&mut rng, &[0, 1, 2, 254, 255]),
                2 => sc.max_inflight = *pick(&mut rng, &[0, 1, 2, 255]),
                3 => sc.init_seq = *pick(&mut rng, &[0, 1, 64511, 64512, 65535]),
                4 => sc.packet_size = *pick(&mut rng, &[0, 1, 27, 28, 47, 48, 1024, 1025, 1500, 65535]),
                5 => sc.max_samples = *pick(&mut rng, &[0, 1]),
                6 => sc.max_flows = *pick(&mut rng, &[0, 1]),
                7 => {
                    sc.read_timeout_us = *pick(&mut rng, &[0, 1_000, 100_000]);
                    sc.grace_us = *pick(&mut rng, &[0, 1_000, 2_000_000]);
                }
                _ => {
                    sc.min_round_us = *pick(&mut rng, &[0, 10_000, 2_000_000]);
                    sc.max_round_us = *pick(&mut rng, &[0, 10_000, 1_000_000]);
                }
            }
        }
        sc.tcp_timeout_us = *pick(&mut rng, &[0, 10_000, 1_000_000]);
        sc.pattern = *pick(&mut rng, &[0, 0xff]);
        sc.tos = *pick(&mut rng, &[0, 0xff]);
        let dist = rng.random_range(1..=6);
        sc.topo = Topo {
            paths: vec![Path { hops: (1..dist).map(|k| Hop { addr: 100 + u16::from(k), ..Hop::default() }).collect(), dist, target_silent: false, tcp: "synack".into() }],
            ..Topo::default()
        };
        sc.net.hop_delay_us = 1_000;
        sc.max_rounds = rng.random_range(2..=3);
        sc.max_recv_calls = 200_000;
        if sc.max_ttl >= 254 && rng.random_bool(0.5) {
            // nothing answers beyond the first hops and the window is wide open: the whole ttl range is walked
            sc.topo.paths[0].dist = 0;
            sc.first_ttl = 1;
            sc.max_inflight = 255;
            sc.min_round_us = 0;
            sc.max_round_us = 20_000_000;
            sc.read_timeout_us = 10_000;
        }
        if rng.random_range(0..8) == 0 {
            // short rounds against a long connect timeout and a target that never answers: TCP sockets of
            // many rounds are pending at the same time
            sc.proto = "tcp".into();
            sc.ports = (*pick(&mut rng, &["src", "dest"])).into();
            sc.strat = "classic".into();
            sc.first_ttl = 1;
            sc.max_ttl = *pick(&mut rng, &[8, 64]);
            sc.max_inflight = 24;
            sc.init_seq = 33434;
            sc.min_round_us = *pick(&mut rng, &[0, 10_000]);
            sc.max_round_us = *pick(&mut rng, &[10_000, 20_000]);
            sc.grace_us = 1_000;
            sc.read_timeout_us = 1_000;
            sc.tcp_timeout_us = *pick(&mut rng, &[1_000_000, 5_000_000]);
            sc.max_rounds = *pick(&mut rng, &[20, 40]);
            sc.topo.paths[0].target_silent = true;
            sc.max_recv_calls = 2_000_000;
        }
        out.push(sc);
    }
    out
}

/// TCP probes (ConfTcp): the table of pending connects - answered, refused, expiring and piling up beyond its capacity.
pub fn gen_tcp(seed: u64, n: usize) -> Vec<Scenario> {
    let mut v = gen_loop(seed ^ 0x7c90, n, "tcp");
    let mut rng = StdRng::seed_from_u64(seed ^ 0x5eed_7c90);
    for (i, sc) in v.iter_mut().enumerate() {
        sc.proto = "tcp".into();
        sc.strat = "classic".into();
        sc.ports = (*pick(&mut rng, &["src", "dest"])).into();
        sc.privileged = true;
        sc.net.late_pct = 0;
        match i % 3 {
            0 => {
                // a target that never answers, short rounds and a long connect timeout: connects pile up
                sc.first_ttl = 1;
                sc.max_ttl = *pick(&mut rng, &[16, 64]);
                sc.max_inflight = 24;
                sc.init_seq = 33434;
                sc.min_round_us = 0;
                sc.max_round_us = *pick(&mut rng, &[10_000, 20_000]);
                sc.grace_us = 1_000;
                sc.read_timeout_us = 1_000;
                sc.tcp_timeout_us = *pick(&mut rng, &[200_000, 1_000_000, 5_000_000]);
                sc.max_rounds = *pick(&mut rng, &[12, 30]);
                for p in &mut sc.topo.paths {
                    p.target_silent = true;
                }
                sc.max_samples = 1;
                sc.snap = "none".into();
            }
            1 => {
                // connect timeouts of a few hop delays: entries expire while later ones are answered
                sc.tcp_timeout_us = sc.net.hop_delay_us * rng.random_range(1..10);
            }
            _ => {}
        }
    }
    v
}

/// Route changes (C10): one responsive path replaced by another responsive path of a different length, nothing
/// lost and rounds long enough to walk the whole path: from the round after the change the reported path length is
/// the new distance.
pub fn gen_grow(seed: u64, n: usize) -> Vec<Scenario> {
    let mut rng = StdRng::seed_from_u64(seed ^ 0x5eed_0c10);
    let mut out = Vec::new();
    for i in 0..n {
        let s = rng.random::<u64>();
        let mut sc = base(&mut rng, format!("grow-{seed}-{i}"), s);
        let d0: u8 = rng.random_range(1..=9);
        let d1: u8 = if rng.random_range(0..4) == 0 && d0 > 1 { rng.random_range(1..d0) } else { d0 + rng.random_range(1..=4) };
        sc.max_ttl = *pick(&mut rng, &[13, 16, 30, 64]);
        sc.first_ttl = if rng.random_range(0..3) == 0 { rng.random_range(1..=d0.min(d1)) } else { 1 };
        sc.max_inflight = (*pick(&mut rng, &[1, 2, 3, 8, 24])).max(sc.first_ttl + 1);
        let path = |no: u16, d: u8, rng: &mut StdRng| Path {
            hops: (1..d).map(|k| Hop { addr: (no + 1) * 300 + u16::from(k), quote: rng.random_range(0..5), ..Hop::default() }).collect(),
            dist: d,
            target_silent: false,
            tcp: if rng.random_bool(0.5) { "synack".into() } else { "rst".into() },
        };
        sc.topo = Topo { paths: vec![path(0, d0, &mut rng)], change_round: rng.random_range(1..=3), paths_after: vec![path(5, d1, &mut rng)] };
        sc.regrow = true;
        sc.max_rounds = sc.topo.change_round + rng.random_range(3..=5);
        sc.net.hop_delay_us = *pick(&mut rng, &[200, 500, 1_000]);
        sc.read_timeout_us = 1_000;
        sc.max_round_us = 100_000;
        sc.min_round_us = *pick(&mut rng, &[0, 20_000, 100_000]);
        sc.grace_us = *pick(&mut rng, &[2_000, 10_000]);
        sc.tcp_timeout_us = 100_000;
        sc.max_samples = *pick(&mut rng, &[1, 3, 256]);
        sc.max_flows = *pick(&mut rng, &[1, 2, 64]);
        out.push(sc);
    }
    out
}

/// UDP paris / dublin without privileges (F28): the sequence fields of those strategies cannot be set on a datagram
/// socket.  A tracer that refuses to start is fine; one that runs must recognise every genuine response.
pub fn gen_unpriv(seed: u64, n: usize) -> Vec<Scenario> {
    let mut v = gen_codec(seed ^ 0x0f28, n);
    for (i, sc) in v.iter_mut().enumerate() {
        sc.id = format!("unpriv-{seed}-{i}");
        sc.proto = "udp".into();
        sc.strat = (*[&"paris", &"dublin"][i % 2]).into();
        sc.ports = (*[&"src", &"dest", &"both"][(i / 2) % 3]).into();
        sc.fam = if (i / 6) % 2 == 0 { 4 } else { 6 };
        sc.privileged = false;
        sc.packet_size = sc.packet_size.max(if sc.fam == 4 { 28 } else { 48 });
    }
    v
}

/// Long runs (C02 / C07): many rounds over a responsive path so that the cumulative sequence offset crosses the
/// buffer size and the wrap-around point of every regime - IPv6 / UDP / dublin (the sequence rides in the payload
/// length and is reset when it no longer fits) and the others started close to the largest initial sequence.
pub fn gen_long(seed: u64, n: usize) -> Vec<Scenario> {
    let mut v = gen_loop(seed ^ 0x10c6, n, "long");
    let mut rng = StdRng::seed_from_u64(seed ^ 0x5eed_10c6);
    for (i, sc) in v.iter_mut().enumerate() {
        if i % 2 == 0 {
            sc.proto = "udp".into();
            sc.strat = "dublin".into();
            sc.fam = 6;
            sc.ports = (*pick(&mut rng, &["src", "dest", "both"])).into();
            sc.privileged = true;
            sc.packet_size = sc.packet_size.max(48);
        } else {
            sc.init_seq = *pick(&mut rng, &[64511, 64300]);
        }
        sc.max_ttl = 16;
        sc.first_ttl = 1;
        sc.max_inflight = 24;
        let dist = rng.random_range(6..=12);
        sc.topo = Topo {
            paths: vec![Path { hops: (1..dist).map(|k| Hop { addr: 300 + u16::from(k), quote: rng.random_range(0..5), ..Hop::default() }).collect(),
                dist, target_silent: false, tcp: "synack".into() }],
            ..Topo::default()
        };
        sc.net.loss = 0;
        sc.net.dup_pct = 0;
        sc.net.late_pct = 0;
        sc.net.hop_delay_us = 500;
        sc.net.jitter_us = 0;
        sc.read_timeout_us = 1_000;
        sc.min_round_us = 0;
        sc.max_round_us = 20_000;
        sc.grace_us = 1_000;
        sc.tcp_timeout_us = 20_000;
        sc.max_rounds = 130;
        sc.max_samples = 4;
        sc.snap = "lite".into();
    }
    v
}
