//! C20: the real tracer thread publishes rounds over the simulated socket while reader threads call
//! `Tracer::snapshot()` and a clearer thread calls `Tracer::clear()`.  Every call's start and end is
//! stamped with a process-wide atomic sequence number (never wall-clock time); the merged log is checked
//! by TLC for linearizability against the abstract counter "rounds applied since the last clear"
//! (spec/mon/MonSnap.tla).  All rounds have the same shape, so a state equal to k whole rounds applied
//! to an empty state is one in which every count equals k.

use crate::run::build_tracer;
use crate::scenario::{Hop, Path, Scenario, Topo};
use crate::sim::{self, NetWrap, SimSocket, World};
use serde_json::{json, Value};
use std::io::Write;
use std::sync::atomic::{AtomicBool, AtomicU64, Ordering};
use std::sync::Arc;
use trippy_core::State;

static SEQ: AtomicU64 = AtomicU64::new(1);
fn stamp() -> u64 {
    SEQ.fetch_add(1, Ordering::SeqCst)
}

/// The digest of a snapshot; a snapshot whose accessors panic (e.g. a flow listed without its state) is torn.
fn digest(st: &State) -> Value {
    std::panic::catch_unwind(std::panic::AssertUnwindSafe(|| digest_inner(st)))
        .unwrap_or_else(|_| json!({"rc0":-1,"sent":[],"flows":[],"err":false,"torn":true}))
}

fn digest_inner(st: &State) -> Value {
    let f0 = State::default_flow_id();
    let sent: Vec<usize> = st.hops().iter().map(trippy_core::Hop::total_sent).collect();
    let flows: Vec<Value> = st
        .flows()
        .iter()
        .map(|(_, id)| json!({"id":id.0,"rc":st.round_count(*id),"sent":st.hops_for_flow(*id).iter().map(trippy_core::Hop::total_sent).collect::<Vec<_>>()}))
        .collect();
    json!({"rc0":st.round_count(f0),"sent":sent,"flows":flows,"err":st.error().is_some()})
}

pub fn run(seed: u64, runs: usize, pause_us: u64, out: &mut dyn Write) -> Vec<Value> {
    let mut stats = Vec::new();
    trippy_core::verif::PAUSE_MICROS.store(pause_us, Ordering::SeqCst);
    for r in 0..runs {
        let rounds = 1200 + (seed as usize + r * 37) % 800;
        let dist = 2 + ((seed as usize + r) % 4) as u8;
        let sc = Scenario {
            id: format!("snap-{seed}-{r}"),
            seed: seed + r as u64,
            max_rounds: rounds,
            min_round_us: 2_000,
            max_round_us: 4_000,
            grace_us: 500,
            read_timeout_us: 1_000,
            max_ttl: 8,
            topo: Topo {
                paths: vec![Path {
                    hops: (0..dist - 1).map(|i| Hop { addr: 300 + u16::from(i), ..Hop::default() }).collect(),
                    dist,
                    target_silent: false,
                    tcp: "synack".into(),
                }],
                ..Topo::default()
            },
            log_st: false,
            snap: "none".into(),
            // two runs in three the tracer fails half way (a fatal receive error): from then on snapshots must show the
            // error together with the rounds, until a clear removes both
            faults: if r % 3 != 0 {
                vec![crate::scenario::Fault { at_send: -1, from_send: 0, until_send: 0, at_recv: (rounds as i64) * 3, op: "select".into(), kind: "other".into() }]
            } else {
                Vec::new()
            },
            ..Scenario::default()
        };
        let tracer = build_tracer(&sc).expect("build");
        let stop = Arc::new(AtomicBool::new(false));
        let writer_done = Arc::new(AtomicBool::new(false));
        sim::FATAL_FIRED.store(false, Ordering::SeqCst);
        writeln!(out, "{}", json!({"e":"run","sc":sc.id,"rounds":rounds,"dist":dist,"readers":3,"pause_us":pause_us})).unwrap();
        let mut handles = Vec::new();
        // readers
        for tid in 0..3u64 {
            let t = tracer.clone();
            let stop = stop.clone();
            handles.push(std::thread::spawn(move || {
                let mut ev: Vec<(u64, Value)> = Vec::new();
                let mut n = 0u64;
                while !stop.load(Ordering::SeqCst) && n < 2500 {
                    let s0 = stamp();
                    let st = t.snapshot();
                    let s1 = stamp();
                    ev.push((s0, json!({"e":"s0","tid":tid})));
                    ev.push((s1, json!({"e":"s1","tid":tid,"d":digest(&st)})));
                    n += 1;
                    for _ in 0..(tid + 1) * 40 {
                        std::thread::yield_now();
                    }
                }
                ev
            }));
        }
        // clearer
        {
            let clear_every_us: u64 = [150u64, 300, 700][r % 3];
            let aimed = r % 3 != 0;
            let aim_delay_us: u64 = ((r as u64 * 5 + seed) % 9) * 4;
            let t = tracer.clone();
            let stop = stop.clone();
            let writer_done = writer_done.clone();
            handles.push(std::thread::spawn(move || {
                let mut ev: Vec<(u64, Value)> = Vec::new();
                let mut n = 0;
                let mut burst = 0;
                while !stop.load(Ordering::SeqCst) && n < 600 {
                    // a burst of back-to-back clears from the moment the fatal fault is injected until the tracer thread
                    // has returned: one of them lands while the tracer publishes its error
                    let fired = sim::FATAL_FIRED.load(Ordering::SeqCst) && !writer_done.load(Ordering::SeqCst);
                    if fired && aimed {
                        // one clear aimed at the moment the tracer publishes its error (the delay sweeps over the runs),
                        // then no clear until the tracer thread has returned: whatever that clear left behind stays
                        // on display for the readers
                        if burst > 0 {
                            let s0 = stamp();
                            let st = t.snapshot();
                            let s1 = stamp();
                            ev.push((s0, json!({"e":"s0","tid":9})));
                            ev.push((s1, json!({"e":"s1","tid":9,"d":digest(&st)})));
                            std::thread::sleep(std::time::Duration::from_micros(50));
                            continue;
                        }
                        let t0 = std::time::Instant::now();
                        while t0.elapsed() < std::time::Duration::from_micros(aim_delay_us) {
                            std::hint::spin_loop();
                        }
                        burst += 1;
                    } else if fired && burst < 400 {
                        burst += 1;
                    } else {
                        // wait for the next periodic clear, but wake up at once when the fatal fault is injected
                        let t0 = std::time::Instant::now();
                        let armed = !sim::FATAL_FIRED.load(Ordering::SeqCst);
                        while t0.elapsed() < std::time::Duration::from_micros(clear_every_us) {
                            if armed && sim::FATAL_FIRED.load(Ordering::SeqCst) {
                                break;
                            }
                            std::hint::spin_loop();
                        }
                        n += 1;
                    }
                    let s0 = stamp();
                    t.clear();
                    let s1 = stamp();
                    ev.push((s0, json!({"e":"c0","tid":9})));
                    ev.push((s1, json!({"e":"c1","tid":9})));
                    if burst > 0 && !writer_done.load(Ordering::SeqCst) {
                        // look at once: nothing can have been published since this clear returned
                        let s0 = stamp();
                        let st = t.snapshot();
                        let s1 = stamp();
                        ev.push((s0, json!({"e":"s0","tid":9})));
                        ev.push((s1, json!({"e":"s1","tid":9,"d":digest(&st)})));
                    }
                }
                ev
            }));
        }
        // the tracer thread (owns the simulated world, which is thread-local)
        let tr = tracer.clone();
        let sc2 = sc.clone();
        let writer = std::thread::spawn(move || {
            sim::install(World::new(sc2.clone()));
            let ev = std::cell::RefCell::new(Vec::<(u64, Value)>::new());
            let src = sim::addr_of(sim::SRC_CODE, sc2.fam);
            let res = tr.verif_run_with::<SimSocket, NetWrap, _, _, _>(
                src,
                NetWrap::new,
                |_round| {
                    ev.borrow_mut().push((stamp(), json!({"e":"a0","tid":8})));
                    sim::with_world(|w| w.round += 1);
                },
                |_round| {
                    ev.borrow_mut().push((stamp(), json!({"e":"a1","tid":8})));
                },
            );
            let _ = sim::take();
            let mut ev = ev.into_inner();
            if res.is_err() {
                // the error was recorded in the state somewhere between the end of the last publication and now
                let since = ev.last().map_or(0, |(s, _)| *s);
                ev.push((since, json!({"e":"f0","tid":7})));
                ev.push((stamp(), json!({"e":"f1","tid":7})));
            }
            (ev, res.is_ok())
        });
        let (wev, ok) = writer.join().expect("tracer thread");
        writer_done.store(true, Ordering::SeqCst);
        if !ok {
            // keep reading and clearing for a while after the failure
            std::thread::sleep(std::time::Duration::from_millis(40));
        }
        // the quiet tail: the tracer is gone, so after a clear has returned every snapshot is empty - while readers
        // spin on snapshot() so that one of them is inside it whenever a clear is in progress
        let tail_stop = Arc::new(AtomicBool::new(false));
        let mut tail = Vec::new();
        for tid in 12..14u64 {
            let t = tracer.clone();
            let tail_stop = tail_stop.clone();
            tail.push(std::thread::spawn(move || {
                let mut ev: Vec<(u64, Value)> = Vec::new();
                let mut n = 0;
                while !tail_stop.load(Ordering::SeqCst) && n < 400 {
                    let s0 = stamp();
                    let st = t.snapshot();
                    let s1 = stamp();
                    ev.push((s0, json!({"e":"s0","tid":tid})));
                    ev.push((s1, json!({"e":"s1","tid":tid,"d":digest(&st)})));
                    n += 1;
                }
                ev
            }));
        }
        let mut tev: Vec<(u64, Value)> = Vec::new();
        for _ in 0..60 {
            let s0 = stamp();
            tracer.clear();
            let s1 = stamp();
            tev.push((s0, json!({"e":"c0","tid":10})));
            tev.push((s1, json!({"e":"c1","tid":10})));
            let s0 = stamp();
            let st = tracer.snapshot();
            let s1 = stamp();
            tev.push((s0, json!({"e":"s0","tid":11})));
            tev.push((s1, json!({"e":"s1","tid":11,"d":digest(&st)})));
            for _ in 0..20 {
                std::thread::yield_now();
            }
        }
        tail_stop.store(true, Ordering::SeqCst);
        stop.store(true, Ordering::SeqCst);
        let mut all = wev;
        all.extend(tev);
        for h in tail {
            all.extend(h.join().expect("thread"));
        }
        for h in handles {
            all.extend(h.join().expect("thread"));
        }
        all.sort_by_key(|(s, _)| *s);
        let nsnap = all.iter().filter(|(_, v)| v["e"] == "s1").count();
        for (s, mut v) in all {
            v.as_object_mut().unwrap().insert("seq".into(), json!(s));
            writeln!(out, "{v}").unwrap();
        }
        writeln!(out, "{}", json!({"e":"end","ok":ok,"panic":false})).unwrap();
        stats.push(json!({"id":sc.id,"cell":format!("d{dist}"),"shape":format!("r{rounds}"),"delivered":{"genuine":nsnap},"events":nsnap}));
    }
    trippy_core::verif::PAUSE_MICROS.store(0, Ordering::SeqCst);
    stats
}
