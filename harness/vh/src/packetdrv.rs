//! Packet-level drivers over the real `trippy-packet` views:
//!   fields  (C12)  set / get of every header field over random non-zero buffers, constructors
//!   ck      (C13)  ICMP / UDP / TCP checksums over random and carry-maximising data
//! The logs are validated by TLC against spec/mon/MonPacket.tla (Layout / Checksum tables).

use rand::rngs::StdRng;
use rand::{Rng, SeedableRng};
use serde_json::{json, Value};
use std::io::Write;
use std::net::{Ipv4Addr, Ipv6Addr};
use trippy_packet::icmp_extension::extension_header::ExtensionHeaderPacket;
use trippy_packet::icmp_extension::extension_object::{ClassNum, ClassSubType, ExtensionObjectPacket};
use trippy_packet::icmp_extension::mpls_label_stack_member::MplsLabelStackMemberPacket;
use trippy_packet::ipv4::Ipv4Packet;
use trippy_packet::ipv6::Ipv6Packet;
use trippy_packet::tcp::TcpPacket;
use trippy_packet::udp::UdpPacket;
use trippy_packet::{checksum, icmpv4, icmpv6, IpProtocol};

/// (type, minimum size, [(field, width in bits, is byte-string)])
pub const TYPES: &[(&str, usize, &[(&str, u32, bool)])] = &[
    ("ipv4", 20, &[("version", 4, false), ("header_length", 4, false), ("dscp", 6, false), ("ecn", 2, false), ("tos", 8, false),
        ("total_length", 16, false), ("identification", 16, false), ("flags_and_fragment_offset", 16, false), ("ttl", 8, false),
        ("protocol", 8, false), ("checksum", 16, false), ("source", 32, true), ("destination", 32, true)]),
    ("ipv6", 40, &[("version", 4, false), ("traffic_class", 8, false), ("flow_label", 20, false), ("payload_length", 16, false),
        ("next_header", 8, false), ("hop_limit", 8, false), ("source", 128, true), ("destination", 128, true)]),
    ("udp", 8, &[("source", 16, false), ("destination", 16, false), ("length", 16, false), ("checksum", 16, false)]),
    ("tcp", 20, &[("source", 16, false), ("destination", 16, false), ("sequence", 32, true), ("acknowledgement", 32, true),
        ("data_offset", 4, false), ("reserved", 3, false), ("flags", 9, false), ("window_size", 16, false), ("checksum", 16, false),
        ("urgent_pointer", 16, false)]),
    ("icmp4", 8, &[("type", 8, false), ("code", 8, false), ("checksum", 16, false)]),
    ("icmp4_echo_request", 8, &[("type", 8, false), ("code", 8, false), ("checksum", 16, false), ("identifier", 16, false), ("sequence", 16, false)]),
    ("icmp4_echo_reply", 8, &[("type", 8, false), ("code", 8, false), ("checksum", 16, false), ("identifier", 16, false), ("sequence", 16, false)]),
    ("icmp4_time_exceeded", 8, &[("type", 8, false), ("code", 8, false), ("checksum", 16, false), ("length", 8, false)]),
    ("icmp4_dest_unreachable", 8, &[("type", 8, false), ("code", 8, false), ("checksum", 16, false), ("length", 8, false), ("next_hop_mtu", 16, false)]),
    ("icmp6", 8, &[("type", 8, false), ("code", 8, false), ("checksum", 16, false)]),
    ("icmp6_echo_request", 8, &[("type", 8, false), ("code", 8, false), ("checksum", 16, false), ("identifier", 16, false), ("sequence", 16, false)]),
    ("icmp6_echo_reply", 8, &[("type", 8, false), ("code", 8, false), ("checksum", 16, false), ("identifier", 16, false), ("sequence", 16, false)]),
    ("icmp6_time_exceeded", 8, &[("type", 8, false), ("code", 8, false), ("checksum", 16, false), ("length", 8, false)]),
    ("icmp6_dest_unreachable", 8, &[("type", 8, false), ("code", 8, false), ("checksum", 16, false), ("length", 8, false), ("next_hop_mtu", 16, false)]),
    ("ext_header", 4, &[("version", 4, false), ("checksum", 16, false)]),
    ("ext_object", 4, &[("length", 16, false), ("class_num", 8, false), ("class_subtype", 8, false)]),
    ("mpls_member", 4, &[("label", 20, false), ("exp", 3, false), ("bos", 1, false), ("ttl", 8, false)]),
];

fn b4(v: &[u8]) -> [u8; 4] {
    [v[0], v[1], v[2], v[3]]
}
fn b16(v: &[u8]) -> [u8; 16] {
    let mut a = [0u8; 16];
    a.copy_from_slice(&v[..16]);
    a
}

macro_rules! icmp_common {
    ($p:expr, $f:expr, $v:expr, $tyty:path, $codety:path) => {
        match $f {
            "type" => {
                $p.set_icmp_type(<$tyty>::from($v as u8));
                Some(u64::from($p.get_icmp_type().id()))
            }
            "code" => {
                $p.set_icmp_code($codety($v as u8));
                Some(u64::from($p.get_icmp_code().0))
            }
            "checksum" => {
                $p.set_checksum($v as u16);
                Some(u64::from($p.get_checksum()))
            }
            _ => None,
        }
    };
}

macro_rules! icmp_echo {
    ($p:expr, $f:expr, $v:expr, $tyty:path, $codety:path) => {
        match $f {
            "identifier" => {
                $p.set_identifier($v as u16);
                Some(u64::from($p.get_identifier()))
            }
            "sequence" => {
                $p.set_sequence($v as u16);
                Some(u64::from($p.get_sequence()))
            }
            _ => icmp_common!($p, $f, $v, $tyty, $codety),
        }
    };
}

macro_rules! icmp_err {
    ($p:expr, $f:expr, $v:expr, $tyty:path, $codety:path) => {
        match $f {
            "length" => {
                $p.set_length($v as u8);
                Some(u64::from($p.get_length()))
            }
            _ => icmp_common!($p, $f, $v, $tyty, $codety),
        }
    };
}

/// Perform `set(field, value)` then `get(field)` through the real view. Returns the value read back.
#[allow(clippy::too_many_lines)]
pub fn set_get_int(ty: &str, f: &str, buf: &mut [u8], v: u64) -> Option<u64> {
    match ty {
        "ipv4" => {
            let mut p = Ipv4Packet::new(buf).ok()?;
            match f {
                "version" => { p.set_version(v as u8); Some(u64::from(p.get_version())) }
                "header_length" => { p.set_header_length(v as u8); Some(u64::from(p.get_header_length())) }
                "dscp" => { p.set_dscp(v as u8); Some(u64::from(p.get_dscp())) }
                "ecn" => { p.set_ecn(v as u8); Some(u64::from(p.get_ecn())) }
                "tos" => { p.set_tos(v as u8); Some(u64::from(p.get_tos())) }
                "total_length" => { p.set_total_length(v as u16); Some(u64::from(p.get_total_length())) }
                "identification" => { p.set_identification(v as u16); Some(u64::from(p.get_identification())) }
                "flags_and_fragment_offset" => { p.set_flags_and_fragment_offset(v as u16); Some(u64::from(p.get_flags_and_fragment_offset())) }
                "ttl" => { p.set_ttl(v as u8); Some(u64::from(p.get_ttl())) }
                "protocol" => { p.set_protocol(IpProtocol::from(v as u8)); Some(u64::from(p.get_protocol().id())) }
                "checksum" => { p.set_checksum(v as u16); Some(u64::from(p.get_checksum())) }
                _ => None,
            }
        }
        "ipv6" => {
            let mut p = Ipv6Packet::new(buf).ok()?;
            match f {
                "version" => { p.set_version(v as u8); Some(u64::from(p.get_version())) }
                "traffic_class" => { p.set_traffic_class(v as u8); Some(u64::from(p.get_traffic_class())) }
                "flow_label" => { p.set_flow_label(v as u32); Some(u64::from(p.get_flow_label())) }
                "payload_length" => { p.set_payload_length(v as u16); Some(u64::from(p.get_payload_length())) }
                "next_header" => { p.set_next_header(IpProtocol::from(v as u8)); Some(u64::from(p.get_next_header().id())) }
                "hop_limit" => { p.set_hop_limit(v as u8); Some(u64::from(p.get_hop_limit())) }
                _ => None,
            }
        }
        "udp" => {
            let mut p = UdpPacket::new(buf).ok()?;
            match f {
                "source" => { p.set_source(v as u16); Some(u64::from(p.get_source())) }
                "destination" => { p.set_destination(v as u16); Some(u64::from(p.get_destination())) }
                "length" => { p.set_length(v as u16); Some(u64::from(p.get_length())) }
                "checksum" => { p.set_checksum(v as u16); Some(u64::from(p.get_checksum())) }
                _ => None,
            }
        }
        "tcp" => {
            let mut p = TcpPacket::new(buf).ok()?;
            match f {
                "source" => { p.set_source(v as u16); Some(u64::from(p.get_source())) }
                "destination" => { p.set_destination(v as u16); Some(u64::from(p.get_destination())) }
                "data_offset" => { p.set_data_offset(v as u8); Some(u64::from(p.get_data_offset())) }
                "reserved" => { p.set_reserved(v as u8); Some(u64::from(p.get_reserved())) }
                "flags" => { p.set_flags(v as u16); Some(u64::from(p.get_flags())) }
                "window_size" => { p.set_window_size(v as u16); Some(u64::from(p.get_window_size())) }
                "checksum" => { p.set_checksum(v as u16); Some(u64::from(p.get_checksum())) }
                "urgent_pointer" => { p.set_urgent_pointer(v as u16); Some(u64::from(p.get_urgent_pointer())) }
                _ => None,
            }
        }
        "icmp4" => {
            let mut p = icmpv4::IcmpPacket::new(buf).ok()?;
            icmp_common!(p, f, v, icmpv4::IcmpType, icmpv4::IcmpCode)
        }
        "icmp4_echo_request" => {
            let mut p = icmpv4::echo_request::EchoRequestPacket::new(buf).ok()?;
            icmp_echo!(p, f, v, icmpv4::IcmpType, icmpv4::IcmpCode)
        }
        "icmp4_echo_reply" => {
            let mut p = icmpv4::echo_reply::EchoReplyPacket::new(buf).ok()?;
            icmp_echo!(p, f, v, icmpv4::IcmpType, icmpv4::IcmpCode)
        }
        "icmp4_time_exceeded" => {
            let mut p = icmpv4::time_exceeded::TimeExceededPacket::new(buf).ok()?;
            icmp_err!(p, f, v, icmpv4::IcmpType, icmpv4::IcmpCode)
        }
        "icmp4_dest_unreachable" => {
            let mut p = icmpv4::destination_unreachable::DestinationUnreachablePacket::new(buf).ok()?;
            if f == "next_hop_mtu" {
                p.set_next_hop_mtu(v as u16);
                Some(u64::from(p.get_next_hop_mtu()))
            } else {
                icmp_err!(p, f, v, icmpv4::IcmpType, icmpv4::IcmpCode)
            }
        }
        "icmp6" => {
            let mut p = icmpv6::IcmpPacket::new(buf).ok()?;
            icmp_common!(p, f, v, icmpv6::IcmpType, icmpv6::IcmpCode)
        }
        "icmp6_echo_request" => {
            let mut p = icmpv6::echo_request::EchoRequestPacket::new(buf).ok()?;
            icmp_echo!(p, f, v, icmpv6::IcmpType, icmpv6::IcmpCode)
        }
        "icmp6_echo_reply" => {
            let mut p = icmpv6::echo_reply::EchoReplyPacket::new(buf).ok()?;
            icmp_echo!(p, f, v, icmpv6::IcmpType, icmpv6::IcmpCode)
        }
        "icmp6_time_exceeded" => {
            let mut p = icmpv6::time_exceeded::TimeExceededPacket::new(buf).ok()?;
            icmp_err!(p, f, v, icmpv6::IcmpType, icmpv6::IcmpCode)
        }
        "icmp6_dest_unreachable" => {
            let mut p = icmpv6::destination_unreachable::DestinationUnreachablePacket::new(buf).ok()?;
            if f == "next_hop_mtu" {
                p.set_next_hop_mtu(v as u16);
                Some(u64::from(p.get_next_hop_mtu()))
            } else {
                icmp_err!(p, f, v, icmpv6::IcmpType, icmpv6::IcmpCode)
            }
        }
        "ext_header" => {
            let mut p = ExtensionHeaderPacket::new(buf).ok()?;
            match f {
                "version" => { p.set_version(v as u8); Some(u64::from(p.get_version())) }
                "checksum" => { p.set_checksum(v as u16); Some(u64::from(p.get_checksum())) }
                _ => None,
            }
        }
        "ext_object" => {
            let mut p = ExtensionObjectPacket::new(buf).ok()?;
            match f {
                "length" => { p.set_length(v as u16); Some(u64::from(p.get_length())) }
                "class_num" => { p.set_class_num(ClassNum::from(v as u8)); Some(u64::from(p.get_class_num().id())) }
                "class_subtype" => { p.set_class_subtype(ClassSubType(v as u8)); Some(u64::from(p.get_class_subtype().0)) }
                _ => None,
            }
        }
        "mpls_member" => {
            let mut p = MplsLabelStackMemberPacket::new(buf).ok()?;
            match f {
                "label" => { p.set_label(v as u32); Some(u64::from(p.get_label())) }
                "exp" => { p.set_exp(v as u8); Some(u64::from(p.get_exp())) }
                "bos" => { p.set_bos(v as u8); Some(u64::from(p.get_bos())) }
                "ttl" => { p.set_ttl(v as u8); Some(u64::from(p.get_ttl())) }
                _ => None,
            }
        }
        _ => None,
    }
}

pub fn set_get_bytes(ty: &str, f: &str, buf: &mut [u8], v: &[u8]) -> Option<Vec<u8>> {
    match (ty, f) {
        ("ipv4", "source") => { let mut p = Ipv4Packet::new(buf).ok()?; p.set_source(Ipv4Addr::from(b4(v))); Some(p.get_source().octets().to_vec()) }
        ("ipv4", "destination") => { let mut p = Ipv4Packet::new(buf).ok()?; p.set_destination(Ipv4Addr::from(b4(v))); Some(p.get_destination().octets().to_vec()) }
        ("ipv6", "source") => { let mut p = Ipv6Packet::new(buf).ok()?; p.set_source_address(Ipv6Addr::from(b16(v))); Some(p.get_source_address().octets().to_vec()) }
        ("ipv6", "destination") => { let mut p = Ipv6Packet::new(buf).ok()?; p.set_destination_address(Ipv6Addr::from(b16(v))); Some(p.get_destination_address().octets().to_vec()) }
        ("tcp", "sequence") => { let mut p = TcpPacket::new(buf).ok()?; p.set_sequence(u32::from_be_bytes(b4(v))); Some(p.get_sequence().to_be_bytes().to_vec()) }
        ("tcp", "acknowledgement") => { let mut p = TcpPacket::new(buf).ok()?; p.set_acknowledgement(u32::from_be_bytes(b4(v))); Some(p.get_acknowledgement().to_be_bytes().to_vec()) }
        _ => None,
    }
}

fn ctor_ok(ty: &str, buf: &mut [u8]) -> (bool, bool) {
    macro_rules! both {
        ($t:ty) => {{
            let v = <$t>::new_view(buf).is_ok();
            let n = <$t>::new(buf).is_ok();
            (n, v)
        }};
    }
    match ty {
        "ipv4" => both!(Ipv4Packet<'_>),
        "ipv6" => both!(Ipv6Packet<'_>),
        "udp" => both!(UdpPacket<'_>),
        "tcp" => both!(TcpPacket<'_>),
        "icmp4" => both!(icmpv4::IcmpPacket<'_>),
        "icmp4_echo_request" => both!(icmpv4::echo_request::EchoRequestPacket<'_>),
        "icmp4_echo_reply" => both!(icmpv4::echo_reply::EchoReplyPacket<'_>),
        "icmp4_time_exceeded" => both!(icmpv4::time_exceeded::TimeExceededPacket<'_>),
        "icmp4_dest_unreachable" => both!(icmpv4::destination_unreachable::DestinationUnreachablePacket<'_>),
        "icmp6" => both!(icmpv6::IcmpPacket<'_>),
        "icmp6_echo_request" => both!(icmpv6::echo_request::EchoRequestPacket<'_>),
        "icmp6_echo_reply" => both!(icmpv6::echo_reply::EchoReplyPacket<'_>),
        "icmp6_time_exceeded" => both!(icmpv6::time_exceeded::TimeExceededPacket<'_>),
        "icmp6_dest_unreachable" => both!(icmpv6::destination_unreachable::DestinationUnreachablePacket<'_>),
        "ext_header" => both!(ExtensionHeaderPacket<'_>),
        "ext_object" => both!(ExtensionObjectPacket<'_>),
        "mpls_member" => both!(MplsLabelStackMemberPacket<'_>),
        _ => (false, false),
    }
}

fn ints(b: &[u8]) -> Vec<u32> {
    b.iter().map(|&x| u32::from(x)).collect()
}

/// C12 driver. `exhaustive16`: sweep all 65536 values of 16-bit fields (thorough tier).
pub fn run_fields(seed: u64, reps: usize, exhaustive16: bool, out: &mut dyn Write) -> (usize, usize) {
    let mut rng = StdRng::seed_from_u64(seed ^ 0xc12);
    let mut events = 0usize;
    let mut panics = 0usize;
    for (ty, min, fields) in TYPES {
        // constructors: every length around the minimum
        for len in 0..(*min + 3) {
            let mut b = vec![0xa5u8; len];
            let (n, v) = ctor_ok(ty, &mut b);
            writeln!(out, "{}", json!({"e":"ctor","ty":ty,"len":len,"ok_new":n,"ok_view":v})).unwrap();
            events += 1;
        }
        for (f, w, is_bytes) in *fields {
            let values: Vec<u64> = if *is_bytes {
                (0..reps.max(4) as u64).collect()
            } else if *w <= 8 {
                (0..=255u64).collect() // beyond the field width too: truncation
            } else if *w == 16 && exhaustive16 {
                (0..=65535u64).collect()
            } else {
                let max = (1u64 << *w) - 1;
                let mut v = vec![0, 1, 2, 0x55, 0xaa, 0xff, 0x100, 0x1ff, max / 2, max - 1, max, 0x8000, 0x7fff, 0x00ff, 0xff00, 0x0f0f];
                for _ in 0..reps {
                    v.push(rng.random_range(0..=max));
                }
                v.retain(|x| *x <= max);
                // the setter's argument type is wider than the field: values that do not fit must be truncated
                if *w == 20 || *w == 9 {
                    let cap: u64 = if *w == 20 { 0x7fff_ffff } else { 0xffff };
                    v.extend([max + 1, max + 2, (max + 1) * 2 + 1, cap, cap - 1, (max + 1) | 0x5]);
                    for _ in 0..reps {
                        v.push(rng.random_range(max + 1..=cap));
                    }
                }
                v
            };
            for v in values {
                let extra = rng.random_range(0..6usize);
                let mut buf: Vec<u8> = (0..*min + extra).map(|_| rng.random_range(1..=255u8)).collect();
                let before = buf.clone();
                let res = if *is_bytes {
                    let n = (*w / 8) as usize;
                    let val: Vec<u8> = (0..n).map(|_| rng.random()).collect();
                    let r = std::panic::catch_unwind(std::panic::AssertUnwindSafe(|| set_get_bytes(ty, f, &mut buf, &val)));
                    r.map(|g| (json!(ints(&val)), g.map(|g| json!(ints(&g)))))
                } else {
                    let r = std::panic::catch_unwind(std::panic::AssertUnwindSafe(|| set_get_int(ty, f, &mut buf, v)));
                    r.map(|g| (json!(v), g.map(|g| json!(g))))
                };
                match res {
                    Ok((val, Some(got))) => {
                        // read-only view over the result: every getter, buffer must be unchanged
                        let snapshot = buf.clone();
                        let mut copy = buf.clone();
                        let (_, view_ok) = ctor_ok(ty, &mut copy);
                        let ro_same = copy == snapshot && view_ok;
                        writeln!(out, "{}", json!({"e":"fld","ty":ty,"f":f,"w":w,"bytes":is_bytes,"v":val,"got":got,
                            "before":ints(&before[..*min]),"after":ints(&buf[..*min]),
                            "tail_same": before[*min..] == buf[*min..], "ro_same": ro_same})).unwrap();
                    }
                    Ok((val, None)) => {
                        writeln!(out, "{}", json!({"e":"fld_unsupported","ty":ty,"f":f,"v":val})).unwrap();
                    }
                    Err(_) => {
                        panics += 1;
                        writeln!(out, "{}", json!({"e":"fld_panic","ty":ty,"f":f,"v":v})).unwrap();
                    }
                }
                events += 1;
            }
        }
    }
    writeln!(out, "{}", json!({"e":"end","panic":panics > 0,"panics":panics})).unwrap();
    (events + 1, panics)
}

/// 16-bit big-endian words of a byte string (odd length padded with a zero octet).
fn words(b: &[u8]) -> Vec<u32> {
    let mut v = Vec::with_capacity(b.len() / 2 + 1);
    let mut i = 0;
    while i + 1 < b.len() {
        v.push(u32::from(b[i]) << 8 | u32::from(b[i + 1]));
        i += 2;
    }
    if i < b.len() {
        v.push(u32::from(b[i]) << 8);
    }
    v
}

/// C13 driver: the real checksum functions over header + payload with random / carry-maximising data.
pub fn run_checksums(seed: u64, n: usize, out: &mut dyn Write) -> usize {
    let mut rng = StdRng::seed_from_u64(seed ^ 0xc13);
    let mut events = 0;
    let kinds = ["icmp4", "icmp6", "udp4", "udp6", "tcp4"];
    let lens: Vec<usize> = {
        let mut l: Vec<usize> = vec![0, 1, 2, 3, 4, 5, 7, 8, 15, 16, 17, 31, 32, 33, 63, 64, 65, 127, 128, 129, 255, 256, 257, 511, 512, 513, 1000, 1003, 1016, 1023, 1024];
        for _ in 0..n {
            l.push(rng.random_range(0..=1024));
        }
        l
    };
    for (i, plen) in lens.iter().enumerate() {
        let kind = kinds[i % kinds.len()];
        let hdr = if kind == "tcp4" { 20 } else { 8 };
        // the steered contents (below) need whole 32-bit words
        let plen = &(if i % 6 == 5 { (*plen / 4 * 4).max(8) } else { *plen });
        let mut data = vec![0u8; hdr + plen];
        match i % 6 {
            0 => rng.fill(&mut data[..]),
            1 => data.iter_mut().for_each(|b| *b = 0xff),
            2 => data.iter_mut().enumerate().for_each(|(j, b)| *b = if j % 2 == 0 { 0xff } else { 0xfe }),
            3 => data.iter_mut().for_each(|b| *b = 0),
            // runs of all-ones words between small words, at every alignment: sums that sit just below a power of
            // two before the last few words are added (deferred-carry implementations lose a carry here)
            _ => {
                let mut j = 0;
                while j < data.len() {
                    let run = rng.random_range(0..24);
                    for _ in 0..run {
                        if j < data.len() {
                            data[j] = 0xff;
                            j += 1;
                        }
                    }
                    for _ in 0..rng.random_range(1..6) {
                        if j < data.len() {
                            data[j] = [0u8, 0, 1, 2, 0x80][rng.random_range(0..5)];
                            j += 1;
                        }
                    }
                }
            }
        }
        let s4 = Ipv4Addr::from(rng.random::<[u8; 4]>());
        let d4 = Ipv4Addr::from(rng.random::<[u8; 4]>());
        let (s6, d6) = if i % 3 == 0 {
            (Ipv6Addr::from([0xffu8; 16]), Ipv6Addr::from([0xffu8; 16]))
        } else {
            (Ipv6Addr::from(rng.random::<[u8; 16]>()), Ipv6Addr::from(rng.random::<[u8; 16]>()))
        };
        if i % 6 == 5 && data.len() >= hdr + 8 && data.len() % 4 == 0 {
            // steer the sum of the 32-bit words of (pseudo header + data) onto 0xffffffff modulo 2^32 by the last four
            // octets: an implementation that defers carries in a wide accumulator folds exactly at its boundary
            let (off, mut all): (usize, Vec<u8>) = match kind {
                "icmp4" => (2, Vec::new()),
                "icmp6" => (2, crate::wire::pseudo_v6(s6, d6, 58, data.len() as u32)),
                "udp4" => (6, crate::wire::pseudo_v4(s4, d4, 17, data.len() as u16)),
                "udp6" => (6, crate::wire::pseudo_v6(s6, d6, 17, data.len() as u32)),
                _ => (16, crate::wire::pseudo_v4(s4, d4, 6, data.len() as u16)),
            };
            let base = all.len();
            all.extend_from_slice(&data);
            all[base + off] = 0;
            all[base + off + 1] = 0;
            let n = all.len();
            all[n - 4..].fill(0);
            if n % 4 == 0 {
                let acc: u64 = all.chunks(4).map(|c| u64::from(u32::from_be_bytes([c[0], c[1], c[2], c[3]]))).sum();
                let d = (0xffff_ffffu64.wrapping_sub(acc & 0xffff_ffff) & 0xffff_ffff) as u32;
                let m = data.len();
                data[m - 4..].copy_from_slice(&d.to_be_bytes());
            }
        }
        // checksum field position (octets) and pseudo header (as the RFCs define it)
        let (off, pseudo, sum): (usize, Vec<u8>, u16) = match kind {
            "icmp4" => (2, Vec::new(), checksum::icmp_ipv4_checksum(&data)),
            "icmp6" => (2, crate::wire::pseudo_v6(s6, d6, 58, data.len() as u32), checksum::icmp_ipv6_checksum(&data, s6, d6)),
            "udp4" => (6, crate::wire::pseudo_v4(s4, d4, 17, data.len() as u16), checksum::udp_ipv4_checksum(&data, s4, d4)),
            "udp6" => (6, crate::wire::pseudo_v6(s6, d6, 17, data.len() as u32), checksum::udp_ipv6_checksum(&data, s6, d6)),
            _ => (16, crate::wire::pseudo_v4(s4, d4, 6, data.len() as u16), checksum::tcp_ipv4_checksum(&data, s4, d4)),
        };
        // the code must ignore whatever is in the checksum field: present it the zeroed field to TLA
        let mut zeroed = data.clone();
        zeroed[off] = 0;
        zeroed[off + 1] = 0;
        let mut all = pseudo.clone();
        all.extend_from_slice(&zeroed);
        writeln!(out, "{}", json!({"e":"ck","kind":kind,"plen":plen,"sum":sum,"ck_word":(pseudo.len() + off) / 2,
            "words": words(&all)})).unwrap();
        events += 1;
    }
    writeln!(out, "{}", json!({"e":"end","panic":false,"panics":0})).unwrap();
    events + 1
}

pub fn field_count() -> usize {
    TYPES.iter().map(|t| t.2.len()).sum()
}

#[allow(dead_code)]
pub fn unused(_: Value) {}

/// C13 (Paris): drive the real `Channel::send_probe` for every sequence in the set and read the bytes
/// handed to the send socket: the UDP checksum field must equal the sequence and the datagram verify.
pub fn run_paris(seed: u64, all: bool, out: &mut dyn Write) -> usize {
    use crate::scenario::Scenario;
    use crate::sim::{self, SimSocket, World};
    use std::time::SystemTime;
    use trippy_core::verif::{Channel, ChannelConfig, Network};
    use trippy_core::{Flags, PacketSize, PayloadPattern, Port, PrivilegeMode, Probe, Protocol, RoundId, Sequence, TimeToLive, TraceId, TypeOfService};
    let mut rng = StdRng::seed_from_u64(seed ^ 0x9a15);
    let mut events = 0;
    for fam in [4u8, 6] {
        for (sport, dport) in [(5000u16, 33434u16), (65535, 65535), (1, 80)] {
            let sc = Scenario {
                fam,
                proto: "udp".into(),
                strat: "paris".into(),
                ports: "both".into(),
                sport,
                dport,
                ..Scenario::default()
            };
            sim::install(World::new(sc));
            let cfg = ChannelConfig {
                privilege_mode: PrivilegeMode::Privileged,
                protocol: Protocol::Udp,
                source_addr: sim::addr_of(sim::SRC_CODE, fam),
                target_addr: sim::addr_of(sim::TARGET_CODE, fam),
                packet_size: PacketSize(84),
                payload_pattern: PayloadPattern(0),
                initial_sequence: Sequence(33434),
                tos: TypeOfService(0),
                ..ChannelConfig::default()
            };
            let mut ch = Channel::<SimSocket>::connect(&cfg).expect("connect");
            let seqs: Vec<u16> = if all {
                (0..=65535u16).collect()
            } else {
                let mut v: Vec<u16> = vec![0, 1, 2, 255, 256, 257, 0x7fff, 0x8000, 0xfffe, 0xffff, 33434];
                for _ in 0..600 {
                    v.push(rng.random());
                }
                v
            };
            for (i, seq) in seqs.iter().enumerate() {
                let probe = Probe {
                    sequence: Sequence(*seq),
                    identifier: TraceId(0),
                    src_port: Port(sport),
                    dest_port: Port(dport),
                    ttl: TimeToLive(1 + (i % 254) as u8),
                    round: RoundId(0),
                    sent: SystemTime::now(),
                    flags: Flags::PARIS_CHECKSUM,
                };
                sim::with_world(|w| w.begin_send(&probe));
                let r = ch.send_probe(probe);
                let bytes = sim::with_world(|w| {
                    w.end_send(&r);
                    w.events.clear();
                    let k = w.sends.len() - 1;
                    let b = w.sends[k].wire.take();
                    if w.sends.len() > 64 {
                        w.sends.clear();
                    }
                    b
                });
                let Some(bytes) = bytes else { continue };
                let d = crate::wire::decode_outbound(&bytes).unwrap_or_default();
                // the words TLA verifies for a sample (pseudo header + UDP datagram)
                let sample = all && i % 97 == 0 || !all && i % 7 == 0;
                let ws: Vec<u32> = if sample {
                    let l4 = if fam == 4 { &bytes[20..] } else { &bytes[40..] };
                    let mut allb = match (sim::addr_of(sim::SRC_CODE, fam), sim::addr_of(sim::TARGET_CODE, fam)) {
                        (std::net::IpAddr::V4(s), std::net::IpAddr::V4(t)) => crate::wire::pseudo_v4(s, t, 17, l4.len() as u16),
                        (std::net::IpAddr::V6(s), std::net::IpAddr::V6(t)) => crate::wire::pseudo_v6(s, t, 17, l4.len() as u32),
                        _ => Vec::new(),
                    };
                    allb.extend_from_slice(l4);
                    words(&allb)
                } else {
                    Vec::new()
                };
                writeln!(out, "{}", json!({"e":"paris","fam":fam,"seq":seq,"udp_sum":d.udp_sum,"ok_l4_sum":d.ok_l4_sum,
                    "sport":d.sport,"dport":d.dport,"words":ws})).unwrap();
                events += 1;
            }
            let _ = sim::take();
        }
    }
    writeln!(out, "{}", json!({"e":"end","panic":false,"panics":0})).unwrap();
    events + 1
}

// ---------------------------------------------------------------------------------------------
// C14: RFC 4884 / RFC 4950 extensions through the real views
// ---------------------------------------------------------------------------------------------
use crate::wire::{self as w, ExtForm, ExtObject, MplsMember};
use trippy_packet::icmp_extension::extension_structure::ExtensionsPacket;
use trippy_packet::icmp_extension::mpls_label_stack::MplsLabelStackPacket;

fn obj_json(o: &ExtObject) -> Value {
    match o {
        ExtObject::Mpls(ms) => json!({"cls":1,"sub":1,"plen":ms.len()*4,"olen":4+ms.len()*4,"mpls":ms.iter().map(|m| json!([m.label,m.exp,m.bos,m.ttl])).collect::<Vec<_>>()}),
        ExtObject::Other { class, ctype, payload } => json!({"cls":class,"sub":ctype,"plen":payload.len(),"olen":4+payload.len(),"mpls":[]}),
    }
}

/// Parse an ICMP error message with the real views; returns the abstract result and an iteration count.
fn parse_ext(fam: u8, te: bool, msg: &[u8]) -> Option<Value> {
    let (payload, ext, len_field): (&[u8], Option<&[u8]>, u8) = match (fam, te) {
        (4, true) => {
            let p = icmpv4::time_exceeded::TimeExceededPacket::new_view(msg).ok()?;
            let pl = p.payload();
            let ex = p.extension();
            // SAFETY of lifetimes: slices borrow from msg
            let pl2 = &msg[offset_of(msg, pl)..offset_of(msg, pl) + pl.len()];
            let ex2 = ex.map(|e| &msg[offset_of(msg, e)..offset_of(msg, e) + e.len()]);
            (pl2, ex2, p.get_length())
        }
        (4, false) => {
            let p = icmpv4::destination_unreachable::DestinationUnreachablePacket::new_view(msg).ok()?;
            let pl = p.payload();
            let ex = p.extension();
            let pl2 = &msg[offset_of(msg, pl)..offset_of(msg, pl) + pl.len()];
            let ex2 = ex.map(|e| &msg[offset_of(msg, e)..offset_of(msg, e) + e.len()]);
            (pl2, ex2, p.get_length())
        }
        (_, true) => {
            let p = icmpv6::time_exceeded::TimeExceededPacket::new_view(msg).ok()?;
            let pl = p.payload();
            let ex = p.extension();
            let pl2 = &msg[offset_of(msg, pl)..offset_of(msg, pl) + pl.len()];
            let ex2 = ex.map(|e| &msg[offset_of(msg, e)..offset_of(msg, e) + e.len()]);
            (pl2, ex2, p.get_length())
        }
        (_, false) => {
            let p = icmpv6::destination_unreachable::DestinationUnreachablePacket::new_view(msg).ok()?;
            let pl = p.payload();
            let ex = p.extension();
            let pl2 = &msg[offset_of(msg, pl)..offset_of(msg, pl) + pl.len()];
            let ex2 = ex.map(|e| &msg[offset_of(msg, e)..offset_of(msg, e) + e.len()]);
            (pl2, ex2, p.get_length())
        }
    };
    let total = msg.len() - 8;
    let p_off = offset_of(msg, payload) - 8;
    let mut objs = Vec::new();
    let mut iters = 0usize;
    let mut version = -1i64;
    let (e_off, e_len) = match ext {
        Some(e) => (offset_of(msg, e) as i64 - 8, e.len() as i64),
        None => (-1, 0),
    };
    if let Some(e) = ext {
        if let Ok(ep) = ExtensionsPacket::new_view(e) {
            if let Ok(h) = ExtensionHeaderPacket::new_view(ep.header()) {
                version = i64::from(h.get_version());
            }
            for ob in ep.objects() {
                iters += 1;
                if iters > 4096 {
                    break;
                }
                if let Ok(o) = ExtensionObjectPacket::new_view(ob) {
                    let mut members = Vec::new();
                    let pay = o.payload();
                    if o.get_class_num() == ClassNum::MultiProtocolLabelSwitchingLabelStack {
                        if let Ok(st) = MplsLabelStackPacket::new_view(pay) {
                            for mb in st.members() {
                                iters += 1;
                                if iters > 4096 {
                                    break;
                                }
                                if let Ok(m) = MplsLabelStackMemberPacket::new_view(mb) {
                                    members.push(json!([m.get_label(), m.get_exp(), m.get_bos(), m.get_ttl()]));
                                }
                            }
                        }
                    }
                    objs.push(json!({"cls":o.get_class_num().id(),"sub":o.get_class_subtype().0,"plen":pay.len(),"olen":o.get_length(),"mpls":members}));
                }
            }
        }
    }
    // the same extension through the conversion the tracer reports to its users (trippy-core Extensions)
    let mut core_ok = false;
    let core: Value = match ext {
        None => json!([]),
        Some(e) => match trippy_core::Extensions::try_from(e) {
            Err(_) => json!([]),
            Ok(x) => {
                core_ok = true;
                json!(x
                .extensions
                .iter()
                .map(|o| match o {
                    trippy_core::Extension::Unknown(u) => json!({"cls":u.class_num,"sub":u.class_subtype,"plen":u.bytes.len(),"mpls":[]}),
                    trippy_core::Extension::Mpls(m) => json!({"cls":1,"sub":-1,"plen":m.members.len() * 4,
                        "mpls":m.members.iter().map(|k| json!([k.label, k.exp, k.bos, k.ttl])).collect::<Vec<_>>()}),
                })
                .collect::<Vec<_>>())
            }
        },
    };
    Some(json!({"len_field":len_field,"p_off":p_off,"p_len":payload.len(),"has_ext":ext.is_some(),"e_off":e_off,"e_len":e_len,
        "total":total,"version":version,"objs":objs,"iters":iters,"core":core,"core_ok":core_ok}))
}

fn offset_of(outer: &[u8], inner: &[u8]) -> usize {
    (inner.as_ptr() as usize).wrapping_sub(outer.as_ptr() as usize)
}

pub fn run_ext(seed: u64, n: usize, out: &mut dyn Write) -> (usize, usize) {
    let mut rng = StdRng::seed_from_u64(seed ^ 0xc14);
    let mut events = 0usize;
    let mut panics = 0usize;
    let s6 = Ipv6Addr::new(0xfd00, 0, 0, 0, 0, 0, 0, 9);
    let d6 = Ipv6Addr::new(0xfd00, 0, 0, 0, 0, 0, 0, 1);
    for i in 0..n {
        let fam: u8 = if i % 2 == 0 { 4 } else { 6 };
        let te = i % 3 != 0;
        let unit = if fam == 4 { 4 } else { 8 };
        let form = match i % 5 {
            0 => ExtForm::None,
            1 | 2 => ExtForm::Compliant,
            _ => ExtForm::Legacy,
        };
        // original datagram length: boundaries around 128 and the whole range the length field can express
        let qlen: usize = match rng.random_range(0..6) {
            0 => *[28usize, 48, 56, 84, 127, 128, 129, 132, 136].get(rng.random_range(0..9)).unwrap(),
            1 => rng.random_range(20..=128),
            2 => rng.random_range(129..=600),
            3 => unit * rng.random_range(32..=(if fam == 4 { 220 } else { 110 })),
            _ => rng.random_range(20..=900),
        };
        let quoted: Vec<u8> = (0..qlen).map(|j| if j == qlen - 1 { 0xee } else { rng.random_range(1..=255) }).collect();
        let nobj = rng.random_range(0..=3);
        let mut objects = Vec::new();
        for _ in 0..nobj {
            if rng.random_bool(0.6) {
                let m = rng.random_range(0..=4);
                let all_zero_bos = rng.random_bool(0.15);
                objects.push(ExtObject::Mpls(
                    (0..m).map(|j| MplsMember {
                        label: rng.random_range(0..(1 << 20)),
                        exp: rng.random_range(0..8),
                        bos: u8::from(j == m - 1 && !all_zero_bos),
                        ttl: rng.random(),
                    }).collect(),
                ));
            } else {
                let pl = 4 * rng.random_range(0..=5usize);
                objects.push(ExtObject::Other {
                    class: *[2u8, 3, 4, 5, 200, 255].get(rng.random_range(0..6)).unwrap(),
                    ctype: rng.random(),
                    payload: (0..pl).map(|_| rng.random()).collect(),
                });
            }
        }
        let ext = if form == ExtForm::None { Vec::new() } else { w::ext_structure(&objects) };
        let msg = if fam == 4 {
            w::icmp4_error(if te { 11 } else { 3 }, if te { 0 } else { 3 }, &quoted, form, &ext)
        } else {
            w::icmp6_error(s6, d6, if te { 3 } else { 1 }, if te { 0 } else { 4 }, &quoted, form, &ext)
        };
        if msg.len() > 1024 {
            continue;
        }
        // a compliant sender keeps the error within 576 octets (IPv4, RFC 1812) / 1280 octets (IPv6)
        let qlen = if form == ExtForm::Compliant {
            qlen.min(if fam == 4 { 576 - 20 - 8 - ext.len() } else { (1280 - 40 - 8 - ext.len()) / 8 * 8 })
        } else {
            qlen
        };
        let desc = json!({"fam":fam,"te":te,"form":match form { ExtForm::None => "none", ExtForm::Compliant => "compliant", ExtForm::Legacy => "legacy" },
            "qlen":qlen,"unit":unit,"objs":objects.iter().map(obj_json).collect::<Vec<_>>()});
        let r = std::panic::catch_unwind(|| parse_ext(fam, te, &msg));
        match r {
            Ok(Some(mut parsed)) => {
                // does the recovered datagram start with the original one, and is the rest zero padding?
                let p_off = parsed["p_off"].as_u64().unwrap() as usize + 8;
                let p_len = parsed["p_len"].as_u64().unwrap() as usize;
                let rec = &msg[p_off..p_off + p_len];
                let keep = qlen.min(p_len);
                let prefix_ok = rec[..keep] == quoted[..keep];
                let pad_zero = rec[keep..].iter().all(|&b| b == 0);
                let po = parsed.as_object_mut().unwrap();
                po.insert("prefix_ok".into(), json!(prefix_ok));
                po.insert("pad_zero".into(), json!(pad_zero));
                writeln!(out, "{}", json!({"e":"ext","d":desc,"p":parsed})).unwrap();
            }
            Ok(None) => {
                writeln!(out, "{}", json!({"e":"ext_unparsed","d":desc})).unwrap();
            }
            Err(_) => {
                panics += 1;
                writeln!(out, "{}", json!({"e":"ext_panic","d":desc})).unwrap();
            }
        }
        events += 1;
        // corruptions of the same message: parsing must stop inside the message and terminate
        for _ in 0..4 {
            let mut bad = msg.clone();
            match rng.random_range(0..5) {
                0 => {
                    let k = rng.random_range(4..8);
                    bad[k] = rng.random();
                }
                1 => {
                    let cut = rng.random_range(8..=bad.len());
                    bad.truncate(cut);
                }
                2 => {
                    if bad.len() > 140 {
                        let k = rng.random_range(136..bad.len());
                        bad[k] = rng.random();
                    }
                }
                3 => {
                    for _ in 0..rng.random_range(1..8) {
                        let k = rng.random_range(8..bad.len());
                        bad[k] = rng.random();
                    }
                }
                _ => {
                    let extra: Vec<u8> = (0..rng.random_range(1..40)).map(|_| rng.random()).collect();
                    bad.extend_from_slice(&extra);
                }
            }
            if bad.len() > 1024 {
                bad.truncate(1024);
            }
            let r = std::panic::catch_unwind(|| parse_ext(fam, te, &bad));
            match r {
                Ok(Some(p)) => writeln!(out, "{}", json!({"e":"extc","fam":fam,"unit":unit,"panic":false,"p":p})).unwrap(),
                Ok(None) => writeln!(out, "{}", json!({"e":"extc_short","fam":fam})).unwrap(),
                Err(_) => {
                    panics += 1;
                    writeln!(out, "{}", json!({"e":"extc","fam":fam,"unit":unit,"panic":true,"p":{"len_field":bad.get(if fam == 4 { 5 } else { 4 }).copied().unwrap_or(0),"p_off":0,"p_len":0,"has_ext":false,"e_off":-1,"e_len":0,"total":bad.len().saturating_sub(8),"version":-1,"objs":[],"iters":0}})).unwrap();
                }
            }
            events += 1;
        }
    }
    writeln!(out, "{}", json!({"e":"end","panic":panics > 0,"panics":panics})).unwrap();
    (events + 1, panics)
}

// ---------------------------------------------------------------------------------------------
// C04: nothing that arrives can crash the receive path; every accessor is total over buffers of at
// least the minimum header size
// ---------------------------------------------------------------------------------------------
use std::cell::RefCell;
thread_local! {
    pub static LAST_PANIC: RefCell<String> = const { RefCell::new(String::new()) };
}

pub fn install_panic_recorder() {
    std::panic::set_hook(Box::new(|info| {
        let loc = info.location().map_or_else(|| "?".to_string(), |l| {
            let f = l.file();
            let f = f.rsplit("crates/").next().unwrap_or(f);
            format!("{}:{}", f, l.line())
        });
        LAST_PANIC.with(|p| *p.borrow_mut() = loc);
    }));
}

/// Call every public accessor (and Debug) of the view of type `ty` over `buf`.
#[allow(clippy::too_many_lines)]
fn touch_all(ty: &str, buf: &[u8]) {
    use std::fmt::Write as _;
    let mut s = String::new();
    match ty {
        "ipv4" => {
            if let Ok(p) = Ipv4Packet::new_view(buf) {
                let _ = (p.get_version(), p.get_header_length(), p.get_dscp(), p.get_ecn(), p.get_tos(), p.get_total_length(),
                    p.get_identification(), p.get_flags_and_fragment_offset(), p.get_ttl(), p.get_protocol(), p.get_checksum(),
                    p.get_source(), p.get_destination());
                let _ = p.get_options_raw().len() + p.payload().len() + p.packet().len();
                let _ = write!(s, "{p:?}");
            }
        }
        "ipv6" => {
            if let Ok(p) = Ipv6Packet::new_view(buf) {
                let _ = (p.get_version(), p.get_traffic_class(), p.get_flow_label(), p.get_payload_length(), p.get_next_header(),
                    p.get_hop_limit(), p.get_source_address(), p.get_destination_address());
                let _ = p.payload().len() + p.packet().len();
                let _ = write!(s, "{p:?}");
            }
        }
        "udp" => {
            if let Ok(p) = UdpPacket::new_view(buf) {
                let _ = (p.get_source(), p.get_destination(), p.get_length(), p.get_checksum(), p.payload().len(), p.packet().len());
                let _ = write!(s, "{p:?}");
            }
        }
        "tcp" => {
            if let Ok(p) = TcpPacket::new_view(buf) {
                let _ = (p.get_source(), p.get_destination(), p.get_sequence(), p.get_acknowledgement(), p.get_data_offset(),
                    p.get_reserved(), p.get_flags(), p.get_window_size(), p.get_checksum(), p.get_urgent_pointer());
                let _ = p.get_options_raw().len() + p.payload().len() + p.packet().len();
                let _ = write!(s, "{p:?}");
            }
        }
        "icmp4" => {
            if let Ok(p) = icmpv4::IcmpPacket::new_view(buf) {
                let _ = (p.get_icmp_type(), p.get_icmp_code(), p.get_checksum(), p.packet().len());
                let _ = write!(s, "{p:?}");
            }
        }
        "icmp4_echo_request" => {
            if let Ok(p) = icmpv4::echo_request::EchoRequestPacket::new_view(buf) {
                let _ = (p.get_icmp_type(), p.get_icmp_code(), p.get_checksum(), p.get_identifier(), p.get_sequence(), p.payload().len());
                let _ = write!(s, "{p:?}");
            }
        }
        "icmp4_echo_reply" => {
            if let Ok(p) = icmpv4::echo_reply::EchoReplyPacket::new_view(buf) {
                let _ = (p.get_icmp_type(), p.get_icmp_code(), p.get_checksum(), p.get_identifier(), p.get_sequence(), p.payload().len());
                let _ = write!(s, "{p:?}");
            }
        }
        "icmp4_time_exceeded" => {
            if let Ok(p) = icmpv4::time_exceeded::TimeExceededPacket::new_view(buf) {
                let _ = (p.get_icmp_type(), p.get_icmp_code(), p.get_checksum(), p.get_length(), p.payload().len(), p.payload_raw().len(),
                    p.extension().map(<[u8]>::len));
                let _ = write!(s, "{p:?}");
            }
        }
        "icmp4_dest_unreachable" => {
            if let Ok(p) = icmpv4::destination_unreachable::DestinationUnreachablePacket::new_view(buf) {
                let _ = (p.get_icmp_type(), p.get_icmp_code(), p.get_checksum(), p.get_length(), p.get_next_hop_mtu(), p.payload().len(),
                    p.payload_raw().len(), p.extension().map(<[u8]>::len));
                let _ = write!(s, "{p:?}");
            }
        }
        "icmp6" => {
            if let Ok(p) = icmpv6::IcmpPacket::new_view(buf) {
                let _ = (p.get_icmp_type(), p.get_icmp_code(), p.get_checksum(), p.packet().len());
                let _ = write!(s, "{p:?}");
            }
        }
        "icmp6_echo_request" => {
            if let Ok(p) = icmpv6::echo_request::EchoRequestPacket::new_view(buf) {
                let _ = (p.get_icmp_type(), p.get_icmp_code(), p.get_checksum(), p.get_identifier(), p.get_sequence(), p.payload().len());
                let _ = write!(s, "{p:?}");
            }
        }
        "icmp6_echo_reply" => {
            if let Ok(p) = icmpv6::echo_reply::EchoReplyPacket::new_view(buf) {
                let _ = (p.get_icmp_type(), p.get_icmp_code(), p.get_checksum(), p.get_identifier(), p.get_sequence(), p.payload().len());
                let _ = write!(s, "{p:?}");
            }
        }
        "icmp6_time_exceeded" => {
            if let Ok(p) = icmpv6::time_exceeded::TimeExceededPacket::new_view(buf) {
                let _ = (p.get_icmp_type(), p.get_icmp_code(), p.get_checksum(), p.get_length(), p.payload().len(), p.payload_raw().len(),
                    p.extension().map(<[u8]>::len));
                let _ = write!(s, "{p:?}");
            }
        }
        "icmp6_dest_unreachable" => {
            if let Ok(p) = icmpv6::destination_unreachable::DestinationUnreachablePacket::new_view(buf) {
                let _ = (p.get_icmp_type(), p.get_icmp_code(), p.get_checksum(), p.get_length(), p.get_next_hop_mtu(), p.payload().len(),
                    p.payload_raw().len(), p.extension().map(<[u8]>::len));
                let _ = write!(s, "{p:?}");
            }
        }
        "ext_header" => {
            if let Ok(p) = ExtensionHeaderPacket::new_view(buf) {
                let _ = (p.get_version(), p.get_checksum(), p.packet().len());
                let _ = write!(s, "{p:?}");
            }
        }
        "ext_object" => {
            if let Ok(p) = ExtensionObjectPacket::new_view(buf) {
                let _ = (p.get_length(), p.get_class_num(), p.get_class_subtype(), p.packet().len());
                let _ = p.payload().len();
                let _ = write!(s, "{p:?}");
            }
        }
        "mpls_member" => {
            if let Ok(p) = MplsLabelStackMemberPacket::new_view(buf) {
                let _ = (p.get_label(), p.get_exp(), p.get_bos(), p.get_ttl(), p.packet().len());
                let _ = write!(s, "{p:?}");
            }
        }
        "ext_structure" => {
            if let Ok(p) = ExtensionsPacket::new_view(buf) {
                let _ = p.header().len() + p.packet().len();
                let mut n = 0;
                for o in p.objects() {
                    n += 1;
                    if n > 4096 {
                        panic!("object iteration does not terminate");
                    }
                    touch_all("ext_object", o);
                }
            }
        }
        "mpls_stack" => {
            if let Ok(p) = MplsLabelStackPacket::new_view(buf) {
                let mut n = 0;
                for m in p.members() {
                    n += 1;
                    if n > 4096 {
                        panic!("member iteration does not terminate");
                    }
                    touch_all("mpls_member", m);
                }
                let _ = p.packet().len();
            }
        }
        _ => {}
    }
}

pub const VIEW_TYPES: &[(&str, usize)] = &[("ipv4", 20), ("ipv6", 40), ("udp", 8), ("tcp", 20), ("icmp4", 8), ("icmp4_echo_request", 8),
    ("icmp4_echo_reply", 8), ("icmp4_time_exceeded", 8), ("icmp4_dest_unreachable", 8), ("icmp6", 8), ("icmp6_echo_request", 8),
    ("icmp6_echo_reply", 8), ("icmp6_time_exceeded", 8), ("icmp6_dest_unreachable", 8), ("ext_header", 4), ("ext_object", 4),
    ("mpls_member", 4), ("ext_structure", 4), ("mpls_stack", 4)];

fn hex(b: &[u8]) -> String {
    b.iter().take(96).map(|x| format!("{x:02x}")).collect()
}

/// Accessors of every view over arbitrary buffers of at least the minimum size: for each type, every
/// value of each of the first octets (where all length / offset fields live) against every buffer length
/// in a window above the minimum, plus random contents.
pub fn run_views(seed: u64, reps: usize, out: &mut dyn Write) -> (usize, usize) {
    let mut rng = StdRng::seed_from_u64(seed ^ 0xc04);
    let mut events = 0;
    let mut total_panics = 0;
    for (ty, min) in VIEW_TYPES {
        let mut n = 0u64;
        let mut panics = 0u64;
        let mut sites: std::collections::BTreeMap<String, (u64, String, usize)> = std::collections::BTreeMap::new();
        let mut try_one = |buf: &[u8]| {
            n += 1;
            let r = std::panic::catch_unwind(|| touch_all(ty, buf));
            if r.is_err() {
                panics += 1;
                let site = LAST_PANIC.with(|p| p.borrow().clone());
                let e = sites.entry(site).or_insert((0, hex(buf), buf.len()));
                e.0 += 1;
            }
        };
        let hdr = (*min).min(16);
        for len in *min..(*min + 70) {
            for pos in 0..hdr {
                for v in 0..=255u8 {
                    let mut buf = vec![0x11u8; len];
                    buf[pos] = v;
                    try_one(&buf);
                }
            }
        }
        for _ in 0..reps {
            let len = rng.random_range(*min..=1100);
            let mut buf = vec![0u8; len];
            rng.fill(&mut buf[..]);
            try_one(&buf);
        }
        total_panics += panics;
        let sites_json: Vec<Value> = sites.iter().map(|(s, (c, h, l))| json!({"site":s,"count":c,"len":l,"hex":h})).collect();
        writeln!(out, "{}", json!({"e":"fz","target":"view","ty":ty,"n":n,"panics":panics,"sites":sites_json})).unwrap();
        events += 1;
    }
    (events, total_panics as usize)
}

/// The receive path of the real `Channel` in all protocol x family x extension-mode configurations fed
/// with: every value of every octet of the structural prefix of a valid response against every truncation
/// length (the exhaustive field x length sweep), random mutations of valid responses, and random bytes.
pub fn run_recv(seed: u64, reps: usize, thorough: bool, out: &mut dyn Write) -> (usize, usize) {
    use crate::scenario::Scenario;
    use crate::sim::{self, SimSocket, World};
    use trippy_core::verif::{Channel, ChannelConfig, Network};
    use trippy_core::{IcmpExtensionParseMode, PacketSize, PayloadPattern, PrivilegeMode, Protocol, Sequence, TypeOfService};
    let mut rng = StdRng::seed_from_u64(seed ^ 0x4ecf);
    let mut events = 0;
    let mut total_panics = 0usize;
    for proto in ["icmp", "udp", "tcp"] {
        for fam in [4u8, 6] {
            for ext in [false, true] {
                let sc = Scenario {
                    fam,
                    proto: proto.into(),
                    strat: if proto == "udp" { "dublin".into() } else { "classic".into() },
                    ports: if proto == "icmp" { "none".into() } else { "src".into() },
                    sport: 5000,
                    ext,
                    ..Scenario::default()
                };
                sim::install(World::new(sc));
                let src = sim::addr_of(sim::SRC_CODE, fam);
                let tgt = sim::addr_of(sim::TARGET_CODE, fam);
                let cfg = ChannelConfig {
                    privilege_mode: PrivilegeMode::Privileged,
                    protocol: match proto { "udp" => Protocol::Udp, "tcp" => Protocol::Tcp, _ => Protocol::Icmp },
                    source_addr: src,
                    target_addr: tgt,
                    packet_size: PacketSize(84),
                    payload_pattern: PayloadPattern(0),
                    initial_sequence: Sequence(33434),
                    tos: TypeOfService(0),
                    icmp_extension_parse_mode: if ext { IcmpExtensionParseMode::Enabled } else { IcmpExtensionParseMode::Disabled },
                    read_timeout: std::time::Duration::from_millis(1),
                    ..ChannelConfig::default()
                };
                let mut ch = Channel::<SimSocket>::connect(&cfg).expect("connect");
                // valid base responses: a Time Exceeded quoting a probe of this configuration, with and
                // without an extension, and a response from the target
                let bases = base_responses(fam, proto, src, tgt);
                let mut n = 0u64;
                let (mut some, mut none, mut errs, mut panics) = (0u64, 0u64, 0u64, 0u64);
                let mut unread = 0u64;
                let mut sites: std::collections::BTreeMap<String, (u64, String, usize)> = std::collections::BTreeMap::new();
                let mut feed = |bytes: &[u8], ch: &mut Channel<SimSocket>| {
                    n += 1;
                    sim::with_world(|w| w.inject(bytes.to_vec(), sim::addr_of(777, fam)));
                    let r = std::panic::catch_unwind(std::panic::AssertUnwindSafe(|| ch.recv_probe()));
                    match r {
                        Ok(Ok(Some(_))) => some += 1,
                        Ok(Ok(None)) => none += 1,
                        Ok(Err(_)) => errs += 1,
                        Err(_) => {
                            panics += 1;
                            let site = LAST_PANIC.with(|p| p.borrow().clone());
                            let e = sites.entry(site).or_insert((0, hex(bytes), bytes.len()));
                            e.0 += 1;
                        }
                    }
                    unread += sim::with_world(|w| {
                        w.events.clear();
                        w.clear_queue()
                    }) as u64;
                };
                for base in &bases {
                    // the structural prefix: outer IP header (IPv4), ICMP header, nested IP header, nested
                    // transport header, and the extension header / first object header
                    let prefix = base.len().min(if fam == 4 { 20 + 8 + 20 + 20 } else { 8 + 40 + 20 });
                    // the lengths around every structural boundary; the thorough tier adds all 256 octet values per
                    // position and more lengths per value, not all lengths x all values (2e8 receive calls: hours)
                    let lens: Vec<usize> = (0..=base.len() + 8).filter(|l| *l < 100 || l % 7 == 0 || *l + 12 > base.len()).collect();
                    let mut positions: Vec<usize> = (0..prefix).collect();
                    if base.len() > 140 {
                        positions.extend(base.len() - 24..base.len());
                        positions.extend((if fam == 4 { 28 } else { 8 }) + 124..(if fam == 4 { 28 } else { 8 }) + 140);
                    }
                    for pos in positions {
                        if pos >= base.len() {
                            continue;
                        }
                        let vals: Vec<u8> = if thorough { (0..=255).collect() } else { vec![0, 1, 2, 3, 4, 5, 6, 8, 15, 16, 17, 31, 32, 33, 58, 63, 64, 65, 69, 96, 127, 128, 129, 200, 254, 255] };
                        for v in vals {
                            let mut b = base.clone();
                            b[pos] = v;
                            if pos < 12 {
                                for l in &lens {
                                    let mut t = b.clone();
                                    t.resize(*l, 0);
                                    feed(&t, &mut ch);
                                }
                            } else {
                                feed(&b, &mut ch);
                                // every octet value at every structural position, each at a few buffer lengths
                                // (all lengths x all values x all positions is ~2e8 receive calls: hours)
                                for _ in 0..(if thorough { 12 } else { 1 }) {
                                    let l = lens[rng.random_range(0..lens.len())];
                                    let mut t = b.clone();
                                    t.resize(l, 0);
                                    feed(&t, &mut ch);
                                }
                            }
                        }
                    }
                    for _ in 0..reps {
                        let mut b = base.clone();
                        for _ in 0..rng.random_range(1..6) {
                            let k = rng.random_range(0..b.len());
                            b[k] = rng.random();
                        }
                        if rng.random_bool(0.4) {
                            b.truncate(rng.random_range(0..=b.len()));
                        }
                        if rng.random_bool(0.2) {
                            let extra: Vec<u8> = (0..rng.random_range(1..400)).map(|_| rng.random()).collect();
                            b.extend_from_slice(&extra);
                        }
                        b.truncate(1500);
                        feed(&b, &mut ch);
                    }
                }
                for _ in 0..reps {
                    let len = rng.random_range(0..=1500);
                    let mut b = vec![0u8; len];
                    rng.fill(&mut b[..]);
                    if fam == 4 && len > 0 && rng.random_bool(0.7) {
                        b[0] = 0x40 | rng.random_range(0..16u8);
                        if len > 9 {
                            b[9] = 1;
                        }
                    }
                    feed(&b, &mut ch);
                }
                total_panics += panics as usize;
                let sites_json: Vec<Value> = sites.iter().map(|(s, (c, h, l))| json!({"site":s,"count":c,"len":l,"hex":h})).collect();
                writeln!(out, "{}", json!({"e":"fz","target":"recv","ty":format!("{proto}/{fam}/{}", if ext {"ext"} else {"noext"}),
                    "n":n,"some":some,"none":none,"errs":errs,"panics":panics,"unread":unread,"sites":sites_json})).unwrap();
                events += 1;
                let _ = sim::take();
            }
        }
    }
    (events, total_panics)
}

fn base_responses(fam: u8, proto: &str, src: std::net::IpAddr, tgt: std::net::IpAddr) -> Vec<Vec<u8>> {
    use std::net::IpAddr;
    // a probe datagram of this configuration as it would appear on the wire
    let probe: Vec<u8> = match (src, tgt) {
        (IpAddr::V4(s), IpAddr::V4(t)) => {
            let l4: Vec<u8> = match proto {
                "udp" => w::udp_datagram_v4(s, t, 5000, 33434, &[0u8; 56]),
                "tcp" => w::tcp_syn(src, tgt, 5000, 33434, 1),
                _ => {
                    let mut m = vec![8u8, 0, 0, 0, 0x04, 0xd2, 0x82, 0x9a];
                    m.extend_from_slice(&[0u8; 56]);
                    m
                }
            };
            let p = match proto { "udp" => 17, "tcp" => 6, _ => 1 };
            let mut d = w::ipv4_header(s, t, p, 1, 0, 33434, 0x4000, (20 + l4.len()) as u16).to_vec();
            d.extend_from_slice(&l4);
            d
        }
        (IpAddr::V6(s), IpAddr::V6(t)) => {
            let l4: Vec<u8> = match proto {
                "udp" => {
                    let mut pl = b"trippy".to_vec();
                    pl.extend_from_slice(&[0u8; 20]);
                    w::udp_datagram_v6(s, t, 5000, 33434, &pl)
                }
                "tcp" => w::tcp_syn(src, tgt, 5000, 33434, 1),
                _ => {
                    let mut m = vec![128u8, 0, 0, 0, 0x04, 0xd2, 0x82, 0x9a];
                    m.extend_from_slice(&[0u8; 36]);
                    m
                }
            };
            let p = match proto { "udp" => 17, "tcp" => 6, _ => 58 };
            let mut d = w::ipv6_header(s, t, p, 1, 0, 0, l4.len() as u16).to_vec();
            d.extend_from_slice(&l4);
            d
        }
        _ => Vec::new(),
    };
    let ext = w::ext_structure(&[ExtObject::Mpls(vec![MplsMember { label: 1234, exp: 1, bos: 0, ttl: 9 }, MplsMember { label: 99, exp: 0, bos: 1, ttl: 1 }]),
        ExtObject::Other { class: 2, ctype: 1, payload: vec![1, 2, 3, 4] }]);
    let mut v = Vec::new();
    match (src, tgt) {
        (IpAddr::V4(s), IpAddr::V4(t)) => {
            let hop = Ipv4Addr::new(10, 1, 1, 1);
            for (typ, code, form, e) in [(11u8, 0u8, ExtForm::None, &[][..]), (11, 0, ExtForm::Compliant, &ext[..]), (11, 0, ExtForm::Legacy, &ext[..]), (3, 3, ExtForm::Compliant, &ext[..])] {
                let icmp = w::icmp4_error(typ, code, &probe, form, e);
                let mut p = w::ipv4_header(hop, s, 1, 250, 0, 7, 0, (20 + icmp.len()) as u16).to_vec();
                p.extend_from_slice(&icmp);
                v.push(p);
            }
            let er = w::icmp4_echo_reply(1234, 33434, &[0u8; 56]);
            let mut p = w::ipv4_header(t, s, 1, 60, 0, 9, 0, (20 + er.len()) as u16).to_vec();
            p.extend_from_slice(&er);
            v.push(p);
        }
        (IpAddr::V6(s), IpAddr::V6(t)) => {
            let hop = Ipv6Addr::new(0xfd00, 0, 0, 0, 0, 0, 1, 1);
            for (typ, code, form, e) in [(3u8, 0u8, ExtForm::None, &[][..]), (3, 0, ExtForm::Compliant, &ext[..]), (3, 0, ExtForm::Legacy, &ext[..]), (1, 4, ExtForm::Compliant, &ext[..])] {
                v.push(w::icmp6_error(hop, s, typ, code, &probe, form, e));
            }
            v.push(w::icmp6_echo_reply(t, s, 1234, 33434, &[0u8; 36]));
        }
        _ => {}
    }
    v
}
