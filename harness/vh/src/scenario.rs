//! Scenario description: tracer configuration + simulated topology + network behaviour + noise +
//! faults (+ optional explicit per-probe plan when replaying a TLC-generated schedule).

use crate::wire::MplsMember;
use serde::{Deserialize, Serialize};

#[derive(Debug, Clone, Serialize, Deserialize)]
#[serde(default)]
pub struct Scenario {
    pub id: String,
    pub fam: u8,
    pub proto: String,
    pub strat: String,
    pub ports: String,
    pub sport: u16,
    pub dport: u16,
    pub privileged: bool,
    pub ext: bool,
    pub first_ttl: u8,
    pub max_ttl: u8,
    pub max_inflight: u8,
    pub init_seq: u16,
    pub packet_size: u16,
    pub pattern: u8,
    pub tos: u8,
    pub trace_id: u16,
    pub max_rounds: usize,
    pub min_round_us: u64,
    pub max_round_us: u64,
    pub grace_us: u64,
    pub read_timeout_us: u64,
    pub tcp_timeout_us: u64,
    pub max_samples: usize,
    pub max_flows: usize,
    pub topo: Topo,
    pub net: NetBehaviour,
    pub noise: Noise,
    pub faults: Vec<Fault>,
    pub plan: Vec<PlanEntry>,
    pub seed: u64,
    /// Snapshot detail after each round: "none" | "lite" | "full".
    pub snap: String,
    /// Log a decoded `wire` event for each datagram put on the wire.
    pub log_wire: bool,
    /// Log the hook projection (`st` events).
    pub log_st: bool,
    /// Hard cap on loop iterations (receive calls) so a livelocked tracer ends the run.
    pub max_recv_calls: u64,
    /// One responsive path that is replaced by another responsive path of a different length at
    /// `topo.change_round` (no loss, generous timings): the reported length must follow.
    pub regrow: bool,
}

impl Default for Scenario {
    fn default() -> Self {
        Self {
            id: String::from("s"),
            fam: 4,
            proto: String::from("icmp"),
            strat: String::from("classic"),
            ports: String::from("none"),
            sport: 0,
            dport: 0,
            privileged: true,
            ext: false,
            first_ttl: 1,
            max_ttl: 64,
            max_inflight: 24,
            init_seq: 33434,
            packet_size: 84,
            pattern: 0,
            tos: 0,
            trace_id: 1234,
            max_rounds: 3,
            min_round_us: 1_000_000,
            max_round_us: 1_000_000,
            grace_us: 100_000,
            read_timeout_us: 10_000,
            tcp_timeout_us: 1_000_000,
            max_samples: 256,
            max_flows: 64,
            topo: Topo::default(),
            net: NetBehaviour::default(),
            noise: Noise::default(),
            faults: Vec::new(),
            plan: Vec::new(),
            seed: 1,
            snap: String::from("lite"),
            log_wire: false,
            log_st: true,
            max_recv_calls: 2_000_000,
            regrow: false,
        }
    }
}

#[derive(Debug, Clone, Default, Serialize, Deserialize)]
#[serde(default)]
pub struct Topo {
    /// ECMP branches; a probe picks one by flow hash.
    pub paths: Vec<Path>,
    /// Round index at which every path switches to `paths_after` (route change); 0 = never.
    pub change_round: usize,
    pub paths_after: Vec<Path>,
}

#[derive(Debug, Clone, Default, Serialize, Deserialize)]
#[serde(default)]
pub struct Path {
    /// Routers at TTL 1, 2, ... (index + 1).
    pub hops: Vec<Hop>,
    /// Distance of the target on this path (0 = unreachable: nothing answers beyond the hops).
    pub dist: u8,
    pub target_silent: bool,
    /// TCP target behaviour: "synack" | "rst".
    pub tcp: String,
}

#[derive(Debug, Clone, Default, Serialize, Deserialize)]
#[serde(default)]
pub struct Hop {
    /// Address code of the responder.
    pub addr: u16,
    pub silent: bool,
    /// Loss of responses in percent.
    pub loss: u8,
    /// Duplicate every response.
    pub dup: bool,
    /// Quotation form: 0 = IP header + 8 octets, 1 = whole datagram, 2 = RFC 4884 compliant with
    /// extension, 3 = legacy 128-octet form with extension, 4 = IP header + 28 octets.
    pub quote: u8,
    pub mpls: Vec<MplsMember2>,
    /// A rewriting device sits at this hop: quoted datagrams from here on carry a UDP checksum
    /// recomputed for a translated source (the value differs per device).
    pub nat: u16,
    /// The translating device does not restore the source address inside ICMP quotations.
    pub nat_keep_src: bool,
    /// Rewrite the quoted TOS byte to this value + 1 (0 = leave).
    pub tos_rewrite: u8,
    /// The router answers with Destination Unreachable instead of Time Exceeded (a filtering device).
    pub du: bool,
}

#[derive(Debug, Clone, Default, Serialize, Deserialize)]
pub struct MplsMember2 {
    pub label: u32,
    pub exp: u8,
    pub bos: u8,
    pub ttl: u8,
}

impl From<&MplsMember2> for MplsMember {
    fn from(m: &MplsMember2) -> Self {
        Self {
            label: m.label,
            exp: m.exp,
            bos: m.bos,
            ttl: m.ttl,
        }
    }
}

#[derive(Debug, Clone, Serialize, Deserialize)]
#[serde(default)]
pub struct NetBehaviour {
    /// One-way+return delay per hop in microseconds.
    pub hop_delay_us: u64,
    /// Uniform jitter added to each response.
    pub jitter_us: u64,
    /// Global loss percentage applied to every response.
    pub loss: u8,
    /// Probability (percent) that a response is delayed by `late_us` extra.
    pub late_pct: u8,
    pub late_us: u64,
    /// Probability (percent) that a response is duplicated (second copy after `dup_gap_us`).
    pub dup_pct: u8,
    pub dup_gap_us: u64,
    /// Virtual time a failing socket operation of a send takes (a failed bind / connect / send_to is not free).
    pub fail_cost_us: u64,
    /// TCP: probability (percent) that a router's answer reaches the tracer as an error on the connecting socket
    /// (EHOSTUNREACH + error queue) instead of as an ICMP message on the raw socket.
    pub tcp_sockerr_pct: u8,
}

impl Default for NetBehaviour {
    fn default() -> Self {
        Self {
            hop_delay_us: 1_000,
            jitter_us: 0,
            loss: 0,
            late_pct: 0,
            late_us: 0,
            dup_pct: 0,
            dup_gap_us: 500,
            fail_cost_us: 0,
            tcp_sockerr_pct: 0,
        }
    }
}

#[derive(Debug, Clone, Default, Serialize, Deserialize)]
#[serde(default)]
pub struct Noise {
    /// Percent chance, per probe sent, of injecting one response of each class.
    pub foreign_pct: u8,
    pub never_pct: u8,
    pub garbage_pct: u8,
    /// Percent chance, per probe sent, of injecting a randomly mutated / truncated copy of a valid response.
    pub mutant_pct: u8,
    /// Foreign responses use a zero trace identifier (the F7 corner) when set.
    pub foreign_zero_id: bool,
}

#[derive(Debug, Clone, Default, Serialize, Deserialize)]
#[serde(default)]
pub struct Fault {
    /// Index of the `send_probe` call (0-based) at which the fault fires, or -1.
    pub at_send: i64,
    /// Fire at every `send_probe` call with index >= this (0 = never; a storm of failures).
    pub from_send: i64,
    /// With `from_send`: stop firing at this index (exclusive); 0 = never stop.
    pub until_send: i64,
    /// Index of the receive call (0-based) at which the fault fires, or -1.
    pub at_recv: i64,
    /// Socket operation: "send_to" | "bind" | "connect" | "set_ttl" | "read" | "select" | "new".
    pub op: String,
    /// "hostunreach" | "netunreach" | "invalid" | "addrnotavail" | "addrinuse" | "perm" |
    /// "wouldblock" | "other".
    pub kind: String,
}

#[derive(Debug, Clone, Default, Serialize, Deserialize)]
#[serde(default)]
pub struct PlanEntry {
    /// Index of the `send_probe` call this entry overrides.
    pub k: usize,
    /// Response delay in microseconds, -1 = no response.
    pub delay_us: i64,
    /// Delay of a duplicate copy, -1 = none.
    pub dup_us: i64,
}
