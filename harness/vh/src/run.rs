//! Run one scenario: the real `Builder` -> `Tracer` -> `Strategy` -> `Channel<SimSocket>` ->
//! `State`, over the simulated world, producing the ndjson event log.

use crate::clock;
use crate::scenario::Scenario;
use crate::sim::{self, code_of, NetWrap, SimSocket, World};
use serde_json::{json, Value};
use std::cell::RefCell;
use std::panic::{catch_unwind, AssertUnwindSafe};
use std::time::Duration;
use trippy_core::{
    Builder, CompletionReason, Extension, IcmpExtensionParseMode, IcmpPacketType, MultipathStrategy, NatStatus,
    PortDirection, PrivilegeMode, ProbeStatus, Protocol, Round, State, Tracer,
};

pub fn build_tracer(sc: &Scenario) -> Result<Tracer, trippy_core::Error> {
    let target = sim::addr_of(sim::TARGET_CODE, sc.fam);
    let proto = match sc.proto.as_str() {
        "udp" => Protocol::Udp,
        "tcp" => Protocol::Tcp,
        _ => Protocol::Icmp,
    };
    let strat = match sc.strat.as_str() {
        "paris" => MultipathStrategy::Paris,
        "dublin" => MultipathStrategy::Dublin,
        _ => MultipathStrategy::Classic,
    };
    let ports = match sc.ports.as_str() {
        "src" => PortDirection::new_fixed_src(sc.sport),
        "dest" => PortDirection::new_fixed_dest(sc.dport),
        "both" => PortDirection::new_fixed_both(sc.sport, sc.dport),
        _ => PortDirection::None,
    };
    Builder::new(target)
        .protocol(proto)
        .multipath_strategy(strat)
        .port_direction(ports)
        .privilege_mode(if sc.privileged { PrivilegeMode::Privileged } else { PrivilegeMode::Unprivileged })
        .icmp_extension_parse_mode(if sc.ext { IcmpExtensionParseMode::Enabled } else { IcmpExtensionParseMode::Disabled })
        .first_ttl(sc.first_ttl)
        .max_ttl(sc.max_ttl)
        .max_inflight(sc.max_inflight)
        .initial_sequence(sc.init_seq)
        .packet_size(sc.packet_size)
        .payload_pattern(sc.pattern)
        .tos(sc.tos)
        .trace_identifier(sc.trace_id)
        .max_rounds(Some(sc.max_rounds))
        .min_round_duration(Duration::from_micros(sc.min_round_us))
        .max_round_duration(Duration::from_micros(sc.max_round_us))
        .grace_duration(Duration::from_micros(sc.grace_us))
        .read_timeout(Duration::from_micros(sc.read_timeout_us))
        .tcp_connect_timeout(Duration::from_micros(sc.tcp_timeout_us))
        .max_samples(sc.max_samples)
        .max_flows(sc.max_flows)
        .build()
}

pub fn cfg_event(sc: &Scenario, t: u64) -> Value {
    let dist0 = sc.topo.paths.first().map_or(0, |p| p.dist);
    let stable = sc.topo.paths.len() == 1 && sc.topo.change_round == 0;
    json!({"e":"cfg","t":t,"sc":sc.id,"fam":sc.fam,"proto":sc.proto,"strat":sc.strat,"ports":sc.ports,
        "sport":sc.sport,"dport":sc.dport,"priv":sc.privileged,"ext":sc.ext,
        "first_ttl":sc.first_ttl,"max_ttl":sc.max_ttl,"max_inflight":sc.max_inflight,
        "init_seq":sc.init_seq,"psize":sc.packet_size,"pattern":sc.pattern,"tos":sc.tos,
        "trace_id":sc.trace_id,"max_rounds":sc.max_rounds,"min_round":sc.min_round_us,
        "max_round":sc.max_round_us,"grace":sc.grace_us,"read_timeout":(sc.read_timeout_us/1000)*1000,
        "max_samples":sc.max_samples,"max_flows":sc.max_flows,"dist":dist0,"stable":stable,
        "npaths":sc.topo.paths.len(),"eps":sim::ZERO_TIMEOUT_COST_US + 1,"seed":sc.seed.to_string(),
        "fatal_fault": sc.faults.iter().any(|f| f.kind == "other" || f.kind == "perm"),
        "storm": sc.faults.iter().any(|f| f.from_send > 0),
        "synthetic": false,
        "nat_at": sc.topo.paths.first().map_or_else(Vec::new, |p| p.hops.iter().enumerate().filter(|(_, h)| h.nat > 0).map(|(i, _)| i + 1).collect::<Vec<_>>()),
        "nat_cell": sc.fam == 4 && sc.proto == "udp" && sc.strat == "dublin",
        "dublin6": sc.strat == "dublin" && sc.fam == 6,
        "tcp_timeout": sc.tcp_timeout_us,
        "regrow": sc.regrow, "change_round": sc.topo.change_round,
        "dist_after": sc.topo.paths_after.first().map_or(0, |p| p.dist)})
}

fn kind_code(t: IcmpPacketType) -> (&'static str, i64) {
    match t {
        IcmpPacketType::TimeExceeded(c) => ("te", i64::from(c.0)),
        IcmpPacketType::EchoReply(c) => ("er", i64::from(c.0)),
        IcmpPacketType::Unreachable(c) => ("du", i64::from(c.0)),
        IcmpPacketType::NotApplicable => ("na", 0),
    }
}

fn ext_json(e: Option<&trippy_core::Extensions>) -> Value {
    match e {
        None => json!([]),
        Some(x) => Value::Array(
            x.extensions
                .iter()
                .map(|e| match e {
                    Extension::Mpls(s) => json!({"mpls": s.members.iter().map(|m| json!([m.label, m.exp, m.bos, m.ttl])).collect::<Vec<_>>()}),
                    Extension::Unknown(u) => json!({"cls": u.class_num, "sub": u.class_subtype, "len": u.bytes.len()}),
                })
                .collect(),
        ),
    }
}

pub fn round_event(round: &Round<'_>, idx: usize, t: u64, t0: u64) -> Value {
    let us = |x: std::time::SystemTime| clock::to_us(x) - t0 as i64;
    let probes: Vec<Value> = round
        .probes
        .iter()
        .map(|p| match p {
            ProbeStatus::NotSent => json!({"st":"N"}),
            ProbeStatus::Skipped => json!({"st":"S"}),
            ProbeStatus::Failed(f) => json!({"st":"F","seq":f.sequence.0,"ttl":f.ttl.0,"round":f.round.0,
                "sent":us(f.sent),"sport":f.src_port.0,"dport":f.dest_port.0}),
            ProbeStatus::Awaited(a) => json!({"st":"A","seq":a.sequence.0,"ttl":a.ttl.0,"round":a.round.0,
                "sent":us(a.sent),"sport":a.src_port.0,"dport":a.dest_port.0}),
            ProbeStatus::Complete(c) => {
                let (kind, code) = kind_code(c.icmp_packet_type);
                json!({"st":"C","seq":c.sequence.0,"ttl":c.ttl.0,"round":c.round.0,
                    "sent":us(c.sent),"recv":us(c.received),
                    "rtt": c.received.duration_since(c.sent).map_or(-1, |d| d.as_micros() as i64),
                    "host":code_of(c.host),"kind":kind,"code":code,
                    "sport":c.src_port.0,"dport":c.dest_port.0,
                    "tos":c.tos.map_or(-1, |t| i64::from(t.0)),
                    "eck":c.expected_udp_checksum.map_or(-1, |x| i64::from(x.0)),
                    "ack":c.actual_udp_checksum.map_or(-1, |x| i64::from(x.0)),
                    "has_ext":c.extensions.is_some(),"ext":ext_json(c.extensions.as_ref())})
            }
        })
        .collect();
    json!({"e":"pub","t":t,"idx":idx,"largest":round.largest_ttl.0,
        "reason": if round.reason == CompletionReason::TargetFound {"tf"} else {"tl"},
        "probes":probes})
}

fn dur_us(d: Option<Duration>) -> i64 {
    d.map_or(-1, |d| d.as_micros() as i64)
}

pub fn hop_json(h: &trippy_core::Hop, full: bool, st: &State, flow: trippy_core::FlowId) -> Value {
    let mut v = json!({"ttl":h.ttl(),"sent":h.total_sent(),"recv":h.total_recv(),"failed":h.total_failed(),
        "is_tgt":st.is_target(h, flow),"in_round":st.is_in_round(h, flow)});
    v.as_object_mut().unwrap().insert(
        "nat".into(),
        json!(match h.last_nat_status() {
            NatStatus::NotApplicable => "na",
            NatStatus::NotDetected => "no",
            NatStatus::Detected => "yes",
        }),
    );
    if full {
        let o = v.as_object_mut().unwrap();
        o.insert("fl".into(), json!(h.total_forward_loss()));
        o.insert("bl".into(), json!(h.total_backward_loss()));
        o.insert("last".into(), json!(h.last_ms().map_or(-1, |x| (x * 1000.0).round() as i64)));
        o.insert("best".into(), json!(h.best_ms().map_or(-1, |x| (x * 1000.0).round() as i64)));
        o.insert("worst".into(), json!(h.worst_ms().map_or(-1, |x| (x * 1000.0).round() as i64)));
        o.insert("jit".into(), json!(h.jitter_ms().map_or(-1, |x| (x * 1000.0).round() as i64)));
        o.insert("jmax".into(), json!(h.jmax_ms().map_or(-1, |x| (x * 1000.0).round() as i64)));
        // fixed point: thousandths of a microsecond would overflow TLC's 32-bit integers; use
        // microseconds scaled by 16 for the averages (exact comparison is done by cross-multiplying)
        o.insert("avg16".into(), json!((h.avg_ms() * 1000.0 * 16.0).round() as i64));
        o.insert("javg16".into(), json!((h.javg_ms() * 1000.0 * 16.0).round() as i64));
        o.insert("sd16".into(), json!((h.stddev_ms() * 1000.0 * 16.0).round() as i64));
        o.insert("loss1000".into(), json!((h.loss_pct() * 1000.0).round() as i64));
        o.insert("floss1000".into(), json!((h.forward_loss_pct() * 1000.0).round() as i64));
        o.insert("bloss1000".into(), json!((h.backward_loss_pct() * 1000.0).round() as i64));
        o.insert("jinta_finite".into(), json!(h.jinta().is_finite() && h.jinta() >= 0.0));
        o.insert("addrs".into(), json!(h.addrs_with_counts().map(|(a, c)| json!([code_of(*a), c])).collect::<Vec<_>>()));
        o.insert("samples".into(), json!(h.samples().iter().map(|d| d.as_micros() as i64).collect::<Vec<_>>()));
        o.insert("lsport".into(), json!(h.last_src_port()));
        o.insert("ldport".into(), json!(h.last_dest_port()));
        o.insert("lseq".into(), json!(h.last_sequence()));
        o.insert("lkind".into(), json!(h.last_icmp_packet_type().map_or("none", |k| kind_code(k).0)));
        o.insert("tos".into(), json!(h.tos().map_or(-1, |t| i64::from(t.0))));
        o.insert("ext".into(), ext_json(h.extensions()));
    }
    let _ = dur_us;
    v
}

pub fn snap_event(st: &State, full: bool, t: u64) -> Value {
    let f0 = State::default_flow_id();
    let hops: Vec<Value> = st.hops().iter().map(|h| hop_json(h, full, st, f0)).collect();
    let tgt = st.target_hop(f0);
    let mut v = json!({"e":"snap","t":t,"hops":hops,"tgt_ttl":tgt.ttl(),"tgt_sent":tgt.total_sent(),
        "rc":st.round_count(f0),"round":st.round(f0).map_or(-1, |r| r as i64),
        "nflows":st.flows().len(),"round_flow":st.round_flow_id().0,
        "err":st.error().is_some()});
    {
        // the flow the latest round was attributed to
        let rf = st.round_flow_id();
        let o = v.as_object_mut().unwrap();
        let fh: Vec<Value> = st.hops_for_flow(rf).iter().map(|h| hop_json(h, false, st, rf)).collect();
        o.insert("fhops".into(), json!(fh));
        o.insert("ftgt_ttl".into(), json!(st.target_hop(rf).ttl()));
        o.insert("frc".into(), json!(st.round_count(rf)));
    }
    if full {
        let o = v.as_object_mut().unwrap();
        let flows: Vec<Value> = st
            .flows()
            .iter()
            .map(|(flow, id)| {
                let entries: Vec<i64> = flow
                    .entries
                    .iter()
                    .map(|e| match e {
                        trippy_core::FlowEntry::Unknown => 0,
                        trippy_core::FlowEntry::Known(a) => code_of(*a),
                    })
                    .collect();
                let fh: Vec<Value> = st.hops_for_flow(*id).iter().map(|h| hop_json(h, false, st, *id)).collect();
                json!({"id":id.0,"entries":entries,"rc":st.round_count(*id),"hops":fh})
            })
            .collect();
        o.insert("flows".into(), json!(flows));
    }
    v
}

pub struct RunResult {
    pub events: Vec<String>,
    pub counters: sim::Counters,
    pub panicked: bool,
}

pub fn run_scenario(sc: &Scenario) -> RunResult {
    let world = World::new(sc.clone());
    let t0 = world.t0;
    sim::install(world);
    sim::with_world(|w| {
        let ev = cfg_event(&w.sc, w.now());
        w.ev(ev);
    });
    trippy_core::verif::set_observer(Some(Box::new(|phase, proj| {
        sim::with_world(|w| w.observe_state(phase, proj));
    })));
    let built = build_tracer(sc);
    let result: String;
    let mut snap_err = json!(false);
    let mut panicked = false;
    match built {
        Err(e) => {
            result = format!("build-err:{e}");
        }
        Ok(tracer) => {
            let src = sim::addr_of(sim::SRC_CODE, sc.fam);
            let snap_mode = sc.snap.clone();
            let idx = RefCell::new(0usize);
            let tr2 = tracer.clone();
            let r = catch_unwind(AssertUnwindSafe(|| {
                tracer.verif_run_with::<SimSocket, NetWrap, _, _, _>(
                    src,
                    NetWrap::new,
                    |round| {
                        sim::with_world(|w| {
                            let i = *idx.borrow();
                            let ev = round_event(round, i, w.now(), t0);
                            w.ev(ev);
                            w.round += 1;
                        });
                        *idx.borrow_mut() += 1;
                    },
                    |_round| {
                        if snap_mode != "none" {
                            let st = tr2.snapshot();
                            sim::with_world(|w| {
                                let ev = snap_event(&st, snap_mode == "full", w.now());
                                w.ev(ev);
                            });
                        }
                    },
                )
            }));
            match r {
                Ok(Ok(())) => result = String::from("ok"),
                Ok(Err(e)) => {
                    let aborted = sim::with_world(|w| w.aborted);
                    result = if aborted { String::from("aborted") } else { format!("err:{}", err_class(&e)) };
                }
                Err(p) => {
                    panicked = true;
                    let msg = p
                        .downcast_ref::<String>()
                        .cloned()
                        .or_else(|| p.downcast_ref::<&str>().map(|s| (*s).to_string()))
                        .unwrap_or_else(|| String::from("?"));
                    result = format!("panic:{msg}");
                }
            }
            let st = catch_unwind(AssertUnwindSafe(|| tracer.snapshot()));
            if let Ok(st) = st {
                snap_err = json!(st.error().is_some());
            }
        }
    }
    trippy_core::verif::set_observer(None);
    let mut w = sim::take();
    let t = w.now();
    let pubs = w.round;
    let ev = json!({"e":"end","t":t,"result":result,"panic":panicked,"aborted":w.aborted,"snap_err":snap_err,"pubs":pubs,
        "sends":w.counters.sends,"fired":w.fired});
    w.ev(ev);
    RunResult {
        events: w.events,
        counters: w.counters,
        panicked,
    }
}

fn err_class(e: &trippy_core::Error) -> &'static str {
    use trippy_core::Error as E;
    match e {
        E::InvalidPacketSize(_) => "packet-size",
        E::PacketError(_) => "packet",
        E::BadConfig(_) => "bad-config",
        E::IoError(_) => "io",
        E::ProbeFailed(_) => "probe-failed",
        E::InsufficientCapacity => "capacity",
        E::AddressInUse(_) => "addr-in-use",
        E::MissingAddr => "missing-addr",
        _ => "other",
    }
}
