//! C05 / C15 / C19 (and the table half of C10): feed the real `State::update_from_round` with
//! synthetic rounds that satisfy the output contract of `publish_trace` (RoundWellFormed, proved by
//! TLC on Tracer.tla) and log every round and the full projection of the resulting state.

use crate::clock;
use crate::run::{round_event, snap_event};
use crate::sim::addr_of;
use rand::rngs::StdRng;
use rand::{Rng, SeedableRng};
use serde_json::json;
use std::io::Write;
use std::time::{Duration, SystemTime, UNIX_EPOCH};
use trippy_core::verif::{Checksum, ProbeFailed, StateConfig};
use trippy_core::{
    CompletionReason, Flags, IcmpPacketType, Port, Probe, ProbeComplete, ProbeStatus, Round, RoundId, Sequence, State,
    TimeToLive, TraceId, TypeOfService,
};

fn pick<'a, T>(rng: &mut StdRng, xs: &'a [T]) -> &'a T {
    &xs[rng.random_range(0..xs.len())]
}

pub struct Plan {
    pub id: String,
    pub max_samples: usize,
    pub max_flows: usize,
    pub first_ttl: u8,
    pub rounds: usize,
    pub fam: u8,
    pub nat: bool,
    pub paths: u16,
    pub rtt_set: Vec<u64>,
    pub fail_pct: u8,
    pub await_pct: u8,
    pub skip_pct: u8,
    pub len_max: u8,
}

pub fn plans(seed: u64, n: usize, family: &str) -> Vec<Plan> {
    let mut rng = StdRng::seed_from_u64(seed ^ 0x57a7e);
    (0..n)
        .map(|i| {
            let sd = family == "sd";
            Plan {
                id: format!("{family}-{seed}-{i}"),
                max_samples: *pick(&mut rng, &[0, 1, 2, 3, 10, 256]),
                max_flows: *pick(&mut rng, &[1, 2, 3, 8, 64]),
                first_ttl: if rng.random_range(0..3) == 0 { rng.random_range(1..=254) } else { 1 },
                rounds: if sd { rng.random_range(2..=18) } else { *pick(&mut rng, &[3, 10, 30, 60]) },
                fam: *pick(&mut rng, &[4, 6]),
                nat: rng.random_bool(0.3),
                paths: *pick(&mut rng, &[1, 1, 2, 3, 5]),
                rtt_set: if sd {
                    (0..=100).map(|x| x * 100).collect()
                } else {
                    match rng.random_range(0..4) {
                        0 => vec![0, 1, 2, 3],
                        1 => vec![100, 250, 1_000, 20_000],
                        2 => vec![0, 999, 1_000_000, 3_500_000],
                        _ => (0..40).map(|x| x * 777 + 13).collect(),
                    }
                },
                fail_pct: *pick(&mut rng, &[0, 0, 10, 40]),
                await_pct: *pick(&mut rng, &[0, 10, 30, 60]),
                skip_pct: *pick(&mut rng, &[0, 0, 15]),
                len_max: *pick(&mut rng, &[1, 3, 6, 12, 30]),
            }
        })
        .collect()
}

pub fn run(plans: &[Plan], seed: u64, out: &mut dyn Write) -> Vec<serde_json::Value> {
    let mut rng = StdRng::seed_from_u64(seed ^ 0xd21);
    let mut stats = Vec::new();
    let base = UNIX_EPOCH + Duration::from_secs(clock::BASE_S);
    for plan in plans {
        let mut events = 0;
        let mut emit = |v: serde_json::Value, out: &mut dyn Write| {
            writeln!(out, "{v}").unwrap();
            events += 1;
        };
        emit(json!({"e":"cfg","t":0,"sc":plan.id,"max_samples":plan.max_samples,"max_flows":plan.max_flows,
            "first_ttl":plan.first_ttl,"synthetic":true,"fam":plan.fam}), out);
        let mut panicked = false;
        let mut st = State::new(StateConfig {
            max_samples: plan.max_samples,
            max_flows: plan.max_flows,
        });
        let mut seq: u16 = 33434;
        let mut now_us: u64 = 0;
        for r in 0..plan.rounds {
            // a path for this round (ECMP): hop address depends on the branch
            let branch = rng.random_range(0..plan.paths);
            let maxlen = plan.len_max.min(255 - plan.first_ttl);
            let n = rng.random_range(0..=maxlen);
            let mut probes: Vec<ProbeStatus> = Vec::new();
            let mut nat_ck: u16 = 1000;
            let mut any_resp_ttl = 0u8;
            for i in 0..n {
                let ttl = plan.first_ttl + i;
                seq = seq.wrapping_add(1);
                if plan.skip_pct > 0 && rng.random_range(0..100) < plan.skip_pct {
                    probes.push(ProbeStatus::Skipped);
                    seq = seq.wrapping_add(1);
                }
                let sent = base + Duration::from_micros(now_us);
                now_us += 10;
                let roll = rng.random_range(0..100);
                let p = Probe {
                    sequence: Sequence(seq),
                    identifier: TraceId(7),
                    src_port: Port(5000),
                    dest_port: Port(33000 + u16::from(ttl)),
                    ttl: TimeToLive(ttl),
                    round: RoundId(r),
                    sent,
                    flags: Flags::empty(),
                };
                if roll < plan.fail_pct {
                    probes.push(ProbeStatus::Failed(ProbeFailed {
                        sequence: p.sequence,
                        identifier: p.identifier,
                        src_port: p.src_port,
                        dest_port: p.dest_port,
                        ttl: p.ttl,
                        round: p.round,
                        sent,
                    }));
                } else if roll < plan.fail_pct + plan.await_pct {
                    probes.push(ProbeStatus::Awaited(p));
                } else {
                    let rtt = *pick(&mut rng, &plan.rtt_set);
                    // shared first hop, then per-branch addresses; occasionally a per-probe variation
                    let code = if i == 0 { 257 } else { (branch + 1) * 300 + u16::from(i) + if rng.random_range(0..20) == 0 { 50 } else { 0 } };
                    if plan.nat && rng.random_range(0..6) == 0 {
                        nat_ck = nat_ck.wrapping_add(rng.random_range(1..9));
                    }
                    any_resp_ttl = ttl;
                    probes.push(ProbeStatus::Complete(ProbeComplete {
                        sequence: p.sequence,
                        identifier: p.identifier,
                        src_port: p.src_port,
                        dest_port: p.dest_port,
                        ttl: p.ttl,
                        round: p.round,
                        sent,
                        host: addr_of(code, plan.fam),
                        received: sent + Duration::from_micros(rtt),
                        icmp_packet_type: if rng.random_bool(0.8) {
                            IcmpPacketType::TimeExceeded(trippy_core::verif::IcmpPacketCode(0))
                        } else {
                            IcmpPacketType::EchoReply(trippy_core::verif::IcmpPacketCode(0))
                        },
                        tos: if rng.random_bool(0.7) { Some(TypeOfService(rng.random())) } else { None },
                        expected_udp_checksum: if plan.nat { Some(Checksum(1000)) } else { None },
                        actual_udp_checksum: if plan.nat { Some(Checksum(nat_ck)) } else { None },
                        // a hop may answer with extensions in one round and without in the next
                        extensions: match rng.random_range(0..4) {
                            0 => Some(trippy_core::Extensions {
                                extensions: vec![trippy_core::Extension::Mpls(trippy_core::MplsLabelStack {
                                    members: (0..rng.random_range(1..3))
                                        .map(|_| trippy_core::MplsLabelStackMember { label: rng.random_range(0..1 << 20), exp: rng.random_range(0..8), bos: 1, ttl: rng.random() })
                                        .collect(),
                                })],
                            }),
                            1 => Some(trippy_core::Extensions { extensions: vec![] }),
                            _ => None,
                        },
                    }));
                }
            }
            // RoundWellFormed: largest is 0 or within [first_ttl, max ttl]
            let largest = if any_resp_ttl == 0 {
                *pick(&mut rng, &[0, 0, plan.first_ttl])
            } else if rng.random_bool(0.7) {
                any_resp_ttl
            } else {
                rng.random_range(plan.first_ttl..=(plan.first_ttl.saturating_add(n)).min(254).max(plan.first_ttl))
            };
            now_us += 1000;
            let round = Round::new(&probes, TimeToLive(largest), if rng.random_bool(0.5) { CompletionReason::TargetFound } else { CompletionReason::RoundTimeLimitExceeded });
            emit(round_event(&round, r, now_us, 0), out);
            let res = std::panic::catch_unwind(std::panic::AssertUnwindSafe(|| {
                st.update_from_round(&round);
                snap_event(&st, true, now_us)
            }));
            match res {
                Ok(ev) => emit(ev, out),
                Err(p) => {
                    panicked = true;
                    let msg = p.downcast_ref::<String>().cloned().or_else(|| p.downcast_ref::<&str>().map(|s| (*s).to_string())).unwrap_or_default();
                    emit(json!({"e":"end","panic":true,"aborted":false,"result":format!("panic:{msg}"),"fired":[],"pubs":r,"snap_err":false}), out);
                    break;
                }
            }
        }
        if !panicked {
            emit(json!({"e":"end","panic":false,"aborted":false,"result":"ok","fired":[],"pubs":plan.rounds,"snap_err":false}), out);
        }
        stats.push(json!({"id":plan.id,"cell":format!("ms{}-mf{}-f{}-nat{}", plan.max_samples, plan.max_flows, plan.first_ttl.min(2), plan.nat),
            "shape":format!("r{}-p{}-l{}", plan.rounds, plan.paths, plan.len_max),"events":events,"delivered":{"genuine":1},"panicked":panicked}));
    }
    let _ = SystemTime::now();
    stats
}
