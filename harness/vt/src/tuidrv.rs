//! C17 / C18: the real `TuiApp` + `run_app` + renderers, driven by a seeded script of key presses,
//! trace updates (rounds applied exactly as the running tracer applies them, clears) and resizes, over
//! a capturing backend.  After every frame the selection state, the shape of the displayed data and
//! the set of hop addresses visible on the screen are logged.

use clap::Parser;
use crossterm::event::{KeyCode, KeyEvent, KeyModifiers};
use rand::rngs::StdRng;
use rand::{Rng, SeedableRng};
use ratatui::backend::{Backend, ClearType, WindowSize};
use ratatui::buffer::Cell;
use ratatui::layout::{Position, Size};
use ratatui::Terminal;
use serde_json::{json, Value};
use std::cell::RefCell;
use std::io::{self, Write};
use std::net::{IpAddr, Ipv4Addr};
use std::rc::Rc;
use std::time::{Duration, SystemTime};
use trippy_core::{
    Builder, CompletionReason, Flags, IcmpPacketType, MultipathStrategy, Port, PortDirection, Probe, ProbeComplete, ProbeStatus, Protocol,
    Round, RoundId, Sequence, State, TimeToLive, TraceId, Tracer,
};
use trippy_tui::verif::{columns as app_columns, settings_rows, build_config, install, run_app_scripted, Args, ConfigFile, GeoIpLookup, Step, TraceInfo, TuiApp, TuiConfig};

/// Watchdog state: a draw or command that makes no progress for VT_HANG_SECS seconds ends the process with
/// exit code 3 after writing `<out>.hang` (the driver re-runs the batch without that scenario and reports it).
static PROGRESS: std::sync::atomic::AtomicU64 = std::sync::atomic::AtomicU64::new(0);
static CUR_SC: std::sync::atomic::AtomicUsize = std::sync::atomic::AtomicUsize::new(usize::MAX);
static CUR_W: std::sync::atomic::AtomicU64 = std::sync::atomic::AtomicU64::new(0);
static CUR_H: std::sync::atomic::AtomicU64 = std::sync::atomic::AtomicU64::new(0);
static CUR_FRAMES: std::sync::atomic::AtomicU64 = std::sync::atomic::AtomicU64::new(0);

fn tick_progress() {
    PROGRESS.fetch_add(1, std::sync::atomic::Ordering::Relaxed);
}

fn start_watchdog(out: &str) {
    use std::sync::atomic::Ordering::Relaxed;
    let path = format!("{out}.hang");
    let _ = std::fs::remove_file(&path);
    let secs: u64 = std::env::var("VT_HANG_SECS").ok().and_then(|s| s.parse().ok()).unwrap_or(30);
    std::thread::spawn(move || {
        let mut last = PROGRESS.load(Relaxed);
        let mut idle = 0u64;
        loop {
            std::thread::sleep(Duration::from_secs(1));
            let now = PROGRESS.load(Relaxed);
            if now != last || CUR_SC.load(Relaxed) == usize::MAX {
                last = now;
                idle = 0;
                continue;
            }
            idle += 1;
            if idle >= secs {
                // where is the main thread? (gdb attaches to this process; function names only)
                let bt = std::process::Command::new("gdb")
                    .args(["-p", &std::process::id().to_string(), "-batch", "-ex", "thread 1", "-ex", "bt 40"])
                    .output()
                    .map(|o| String::from_utf8_lossy(&o.stdout).to_string())
                    .unwrap_or_default();
                let stack: Vec<String> = bt
                    .lines()
                    .filter(|l| l.starts_with('#'))
                    .filter_map(|l| l.split(" in ").nth(1).or_else(|| l.split_whitespace().nth(1)))
                    .map(|f| f.split(" (").next().unwrap_or("").split("::h").next().unwrap_or("").to_string())
                    .take(14)
                    .collect();
                let site = if stack.iter().any(|f| f.starts_with("cassowary::")) {
                    "cassowary"
                } else if stack.is_empty() {
                    "unknown"
                } else {
                    "other"
                };
                let rec = json!({"e":"hang","idx":CUR_SC.load(Relaxed),"w":CUR_W.load(Relaxed),"h":CUR_H.load(Relaxed),
                    "frames":CUR_FRAMES.load(Relaxed),"secs":secs,"site":site,"stack":stack});
                let _ = std::fs::write(&path, rec.to_string());
                std::process::exit(3);
            }
        }
    });
}

struct Shared {
    w: u16,
    h: u16,
    cells: Vec<String>,
}

impl Shared {
    fn resize(&mut self, w: u16, h: u16) {
        CUR_W.store(u64::from(w), std::sync::atomic::Ordering::Relaxed);
        CUR_H.store(u64::from(h), std::sync::atomic::Ordering::Relaxed);
        self.w = w;
        self.h = h;
        self.cells = vec![String::from(" "); usize::from(w) * usize::from(h)];
    }
    fn rows(&self) -> Vec<String> {
        (0..self.h).map(|y| (0..self.w).map(|x| self.cells[usize::from(y) * usize::from(self.w) + usize::from(x)].as_str()).collect::<String>()).collect()
    }
}

struct CaptureBackend {
    sh: Rc<RefCell<Shared>>,
    cursor: Position,
}

impl Backend for CaptureBackend {
    fn draw<'a, I>(&mut self, content: I) -> io::Result<()>
    where
        I: Iterator<Item = (u16, u16, &'a Cell)>,
    {
        let mut sh = self.sh.borrow_mut();
        for (x, y, c) in content {
            if x < sh.w && y < sh.h {
                let i = usize::from(y) * usize::from(sh.w) + usize::from(x);
                sh.cells[i] = c.symbol().to_string();
            }
        }
        Ok(())
    }
    fn hide_cursor(&mut self) -> io::Result<()> {
        Ok(())
    }
    fn show_cursor(&mut self) -> io::Result<()> {
        Ok(())
    }
    fn get_cursor_position(&mut self) -> io::Result<Position> {
        Ok(self.cursor)
    }
    fn set_cursor_position<P: Into<Position>>(&mut self, position: P) -> io::Result<()> {
        self.cursor = position.into();
        Ok(())
    }
    fn clear(&mut self) -> io::Result<()> {
        let mut sh = self.sh.borrow_mut();
        let (w, h) = (sh.w, sh.h);
        sh.resize(w, h);
        Ok(())
    }
    fn clear_region(&mut self, _clear_type: ClearType) -> io::Result<()> {
        self.clear()
    }
    fn size(&self) -> io::Result<Size> {
        let sh = self.sh.borrow();
        Ok(Size::new(sh.w, sh.h))
    }
    fn window_size(&mut self) -> io::Result<WindowSize> {
        let sh = self.sh.borrow();
        Ok(WindowSize {
            columns_rows: Size::new(sh.w, sh.h),
            pixels: Size::new(0, 0),
        })
    }
    fn flush(&mut self) -> io::Result<()> {
        Ok(())
    }
}

thread_local! {
    static LAST_PANIC: RefCell<String> = const { RefCell::new(String::new()) };
}

fn hop_addr(ttl: u8, branch: u8) -> IpAddr {
    IpAddr::V4(Ipv4Addr::new(172, 16 + (ttl % 200), branch, 201))
}

const SRC: IpAddr = IpAddr::V4(Ipv4Addr::new(192, 168, 77, 88));

/// The commands of the key-binding table with their default keys.
fn commands() -> Vec<(&'static str, KeyEvent)> {
    let k = |c: char| KeyEvent::new(KeyCode::Char(c), KeyModifiers::NONE);
    let ctrl = |c: char| KeyEvent::new(KeyCode::Char(c), KeyModifiers::CONTROL);
    vec![
        ("toggle_help", k('h')), ("toggle_help_alt", k('?')), ("toggle_settings", k('s')),
        ("settings_tui", k('1')), ("settings_trace", k('2')), ("settings_dns", k('3')), ("settings_geoip", k('4')),
        ("settings_bindings", k('5')), ("settings_theme", k('6')), ("settings_columns", k('7')),
        ("previous_hop", KeyEvent::new(KeyCode::Up, KeyModifiers::NONE)), ("next_hop", KeyEvent::new(KeyCode::Down, KeyModifiers::NONE)),
        ("previous_trace", KeyEvent::new(KeyCode::Left, KeyModifiers::NONE)), ("next_trace", KeyEvent::new(KeyCode::Right, KeyModifiers::NONE)),
        ("previous_hop_address", k(',')), ("next_hop_address", k('.')),
        ("address_mode_ip", k('i')), ("address_mode_host", k('n')), ("address_mode_both", k('b')),
        ("toggle_freeze", ctrl('f')), ("toggle_chart", k('c')), ("toggle_map", k('m')), ("toggle_flows", k('f')),
        ("expand_privacy", k('p')), ("contract_privacy", k('o')),
        ("expand_hosts", k(']')), ("contract_hosts", k('[')), ("expand_hosts_max", k('}')), ("contract_hosts_min", k('{')),
        ("chart_zoom_in", k('=')), ("chart_zoom_out", k('-')),
        ("clear_trace_data", ctrl('r')), ("clear_dns_cache", ctrl('k')), ("clear_selection", KeyEvent::new(KeyCode::Esc, KeyModifiers::NONE)),
        ("toggle_as_info", k('z')), ("toggle_hop_details", k('d')), ("unbound", k('x')),
    ]
}

pub struct TraceGen {
    tracer: Tracer,
    /// TTLs that never answer (hops without any address)
    silent: Vec<u8>,
    round: usize,
    seq: u16,
    first_ttl: u8,
    branches: u8,
    len: u8,
    /// The target answers the last probe of a round from its own address.
    reach: bool,
    /// Nothing answers during the first rounds (hops without any address are on display).
    mute_rounds: usize,
    target: IpAddr,
}

impl TraceGen {
    /// A generator over a non-running tracer (used by the report driver).
    pub fn new(tracer: Tracer, rng: &mut StdRng, first_ttl: u8, multipath: bool, target: IpAddr) -> Self {
        Self {
            tracer,
            silent: (1..30u8).filter(|_| rng.random_range(0..5) == 0).collect(),
            round: 0,
            seq: 33434,
            first_ttl,
            branches: if multipath { rng.random_range(1..4) } else { 1 },
            len: rng.random_range(0..10),
            reach: rng.random_bool(0.6),
            mute_rounds: 0,
            target,
        }
    }

    pub fn apply_round(&mut self, rng: &mut StdRng) -> Value {
        let branch = rng.random_range(0..self.branches);
        // the path length drifts
        match rng.random_range(0..8) {
            0 => self.len = self.len.saturating_add(1).min(30),
            1 => self.len = self.len.saturating_sub(1),
            2 => self.len = rng.random_range(0..12),
            _ => {}
        }
        let n = self.len;
        let base = SystemTime::UNIX_EPOCH + Duration::from_secs(1_700_000_000 + self.round as u64);
        let mut probes = Vec::new();
        let mut largest = 0u8;
        for i in 0..n {
            let ttl = self.first_ttl.saturating_add(i).min(254);
            self.seq = self.seq.wrapping_add(1);
            let p = Probe {
                sequence: Sequence(self.seq),
                identifier: TraceId(1),
                src_port: Port(5000),
                dest_port: Port(33434),
                ttl: TimeToLive(ttl),
                round: RoundId(self.round),
                sent: base,
                flags: Flags::empty(),
            };
            if self.round < self.mute_rounds || self.silent.contains(&ttl) || rng.random_range(0..5) == 0 {
                probes.push(ProbeStatus::Awaited(p));
            } else {
                largest = ttl;
                let b = if i == 0 { 0 } else { branch };
                // occasionally a second address for the same hop
                let b = if rng.random_range(0..10) == 0 { b.wrapping_add(7) } else { b };
                probes.push(ProbeStatus::Complete(ProbeComplete {
                    sequence: p.sequence,
                    identifier: p.identifier,
                    src_port: p.src_port,
                    dest_port: p.dest_port,
                    ttl: p.ttl,
                    round: p.round,
                    sent: base,
                    host: if self.reach && i + 1 == n { self.target } else { hop_addr(ttl, b) },
                    received: base + Duration::from_micros(rng.random_range(100..90_000)),
                    icmp_packet_type: if self.reach && i + 1 == n {
                        IcmpPacketType::EchoReply(trippy_core::verif::IcmpPacketCode(0))
                    } else {
                        IcmpPacketType::TimeExceeded(trippy_core::verif::IcmpPacketCode(0))
                    },
                    tos: None,
                    expected_udp_checksum: None,
                    actual_udp_checksum: None,
                    extensions: None,
                }));
            }
        }
        let round = Round::new(&probes, TimeToLive(largest), CompletionReason::TargetFound);
        self.tracer.verif_apply_round(&round);
        self.round += 1;
        json!({"e":"upd","kind":"round","n":n,"largest":largest,"branch":branch})
    }
}

impl TraceGen {
    /// Address counts per hop of the default flow.
    fn addrs0(&self) -> Vec<usize> {
        self.tracer.snapshot().hops().iter().map(trippy_core::Hop::addr_count).collect()
    }

    /// A round in which `len` probes go out and nothing answers (hops without any address).
    fn apply_silent(&mut self, len: u8) -> Value {
        let base = SystemTime::UNIX_EPOCH + Duration::from_secs(1_700_000_000 + self.round as u64);
        let mut probes = Vec::new();
        for i in 0..len {
            self.seq = self.seq.wrapping_add(1);
            probes.push(ProbeStatus::Awaited(Probe {
                sequence: Sequence(self.seq),
                identifier: TraceId(1),
                src_port: Port(5000),
                dest_port: Port(33434),
                ttl: TimeToLive(self.first_ttl.saturating_add(i)),
                round: RoundId(self.round),
                sent: base,
                flags: Flags::empty(),
            }));
        }
        let round = Round::new(&probes, TimeToLive(self.first_ttl.saturating_add(len).saturating_sub(1)), CompletionReason::RoundTimeLimitExceeded);
        self.tracer.verif_apply_round(&round);
        self.round += 1;
        json!({"e":"upd","kind":"silent","n":len})
    }

    /// A round of `len` hops on branch 1 in which hop `i` (0-based) answers from one more, new address.
    fn apply_addr(&mut self, len: u8, i: u8) -> Value {
        let base = SystemTime::UNIX_EPOCH + Duration::from_secs(1_700_000_000 + self.round as u64);
        let known = self.addrs0().get(usize::from(i)).copied().unwrap_or(0) as u8;
        let mut probes = Vec::new();
        for k in 0..len {
            let ttl = self.first_ttl.saturating_add(k);
            self.seq = self.seq.wrapping_add(1);
            probes.push(ProbeStatus::Complete(ProbeComplete {
                sequence: Sequence(self.seq),
                identifier: TraceId(1),
                src_port: Port(5000),
                dest_port: Port(33434),
                ttl: TimeToLive(ttl),
                round: RoundId(self.round),
                sent: base,
                host: if k == i { hop_addr(ttl, 50 + known) } else { hop_addr(ttl, 1) },
                received: base + Duration::from_micros(1000),
                icmp_packet_type: IcmpPacketType::TimeExceeded(trippy_core::verif::IcmpPacketCode(0)),
                tos: None,
                expected_udp_checksum: None,
                actual_udp_checksum: None,
                extensions: None,
            }));
        }
        let round = Round::new(&probes, TimeToLive(self.first_ttl.saturating_add(len).saturating_sub(1)), CompletionReason::TargetFound);
        self.tracer.verif_apply_round(&round);
        self.round += 1;
        json!({"e":"upd","kind":"round","n":len,"largest":len,"branch":1})
    }

    /// A round on ECMP branch `branch` in which hops 1..=len all answer from branch-specific addresses.
    fn apply_fixed(&mut self, branch: u8, len: u8) -> Value {
        let base = SystemTime::UNIX_EPOCH + Duration::from_secs(1_700_000_000 + self.round as u64);
        let mut probes = Vec::new();
        for i in 0..len {
            let ttl = self.first_ttl.saturating_add(i);
            self.seq = self.seq.wrapping_add(1);
            probes.push(ProbeStatus::Complete(ProbeComplete {
                sequence: Sequence(self.seq),
                identifier: TraceId(1),
                src_port: Port(5000),
                dest_port: Port(33434),
                ttl: TimeToLive(ttl),
                round: RoundId(self.round),
                sent: base,
                host: hop_addr(ttl, branch),
                received: base + Duration::from_micros(1000),
                icmp_packet_type: IcmpPacketType::TimeExceeded(trippy_core::verif::IcmpPacketCode(0)),
                tos: None,
                expected_udp_checksum: None,
                actual_udp_checksum: None,
                extensions: None,
            }));
        }
        let round = Round::new(&probes, TimeToLive(self.first_ttl.saturating_add(len).saturating_sub(1)), CompletionReason::TargetFound);
        self.tracer.verif_apply_round(&round);
        self.round += 1;
        json!({"e":"upd","kind":"round","n":len,"largest":len,"branch":branch})
    }
}

#[derive(serde::Deserialize, Clone)]
struct ScriptStep {
    d: String,
    t: usize,
    f: u8,
}

#[derive(serde::Deserialize, Clone)]
struct Script {
    ntraces: usize,
    maxflows: usize,
    privacy: i64,
    steps: Vec<ScriptStep>,
}

fn load_scripts(path: &str) -> Vec<Script> {
    let mut seen = std::collections::HashSet::new();
    let mut out = Vec::new();
    for l in std::fs::read_to_string(path).unwrap_or_default().lines() {
        if let (Some(a), Some(b)) = (l.find("\"{"), l.rfind("}\"")) {
            let js = l[a + 1..=b].replace("\\\"", "\"");
            if seen.insert(js.clone()) {
                if let Ok(s) = serde_json::from_str::<Script>(&js) {
                    out.push(s);
                }
            }
        }
    }
    out
}

struct Ctx {
    rng: StdRng,
    gens: Vec<TraceGen>,
    steps_left: usize,
    events: Vec<Value>,
    last_key: String,
    sh: Rc<RefCell<Shared>>,
    family: String,
    default_cols: bool,
    script: Option<(Script, usize, Vec<Vec<u8>>)>,
    cur_trace: usize,
    /// 0 = main view, 1 = help dialog, 2 = settings dialog (as of the last frame)
    dialog: u8,
}

#[allow(clippy::too_many_lines)]
pub fn run(seed: u64, n: usize, family: &str, out: &str, stats_path: Option<&str>) -> i32 {
    std::panic::set_hook(Box::new(|info| {
        let loc = info.location().map_or_else(|| "?".to_string(), |l| {
            let f = l.file();
            let f = f.rsplit("crates/").next().unwrap_or(f);
            format!("{}:{}", f, l.line())
        });
        LAST_PANIC.with(|p| *p.borrow_mut() = loc);
    }));
    let mut f = std::io::BufWriter::new(std::fs::File::create(out).expect("create out"));
    let mut stats = Vec::new();
    let mut master = StdRng::seed_from_u64(seed ^ 0xc17);
    let scripts: Vec<Script> = if family.starts_with("script") { load_scripts(&std::env::var("VT_SCRIPTS").unwrap_or_default()) } else { Vec::new() };
    let n = if family.starts_with("script") { scripts.len() } else { n };
    let skip: Vec<usize> = std::env::var("VT_SKIP").unwrap_or_default().split(',').filter_map(|x| x.parse().ok()).collect();
    start_watchdog(out);
    for sc in 0..n {
        let s: u64 = master.random();
        if skip.contains(&sc) {
            continue;
        }
        CUR_SC.store(sc, std::sync::atomic::Ordering::Relaxed);
        CUR_FRAMES.store(0, std::sync::atomic::Ordering::Relaxed);
        tick_progress();
        if std::env::var("VT_FAKE_HANG").ok().and_then(|x| x.parse::<usize>().ok()) == Some(sc) {
            // self-test of the watchdog path: spin outside the layout solver
            #[allow(clippy::empty_loop)]
            loop {
                std::hint::spin_loop();
            }
        }

        let mut rng = StdRng::seed_from_u64(s);
        let mut ntraces = if rng.random_range(0..4) == 0 { 2 } else { 1 };
        let mut strat = *[MultipathStrategy::Classic, MultipathStrategy::Paris, MultipathStrategy::Dublin].get(rng.random_range(0..3)).unwrap();
        let mut max_flows = *[1usize, 2, 3, 64].get(rng.random_range(0..4)).unwrap();
        let mut first_ttl = if rng.random_range(0..4) == 0 { rng.random_range(2..6) } else { 1 };
        if let Some(scr) = scripts.get(sc) {
            ntraces = scr.ntraces;
            max_flows = scr.maxflows;
            strat = if max_flows > 1 { MultipathStrategy::Dublin } else { MultipathStrategy::Classic };
            first_ttl = 1;
        }
        let mut privacy: Option<u8> = match rng.random_range(0..4) {
            0 => Some(rng.random_range(0..6)),
            _ => None,
        };
        if let Some(scr) = scripts.get(sc) {
            privacy = u8::try_from(scr.privacy).ok();
        }
        // the effective TUI configuration through the real option layering
        let mut argv: Vec<String> = vec!["trip".into(), "example.com".into(), "--tui-refresh-rate".into(), "50ms".into()];
        if let Some(p) = privacy {
            argv.push("--tui-privacy-max-ttl".into());
            argv.push(p.to_string());
        }
        let plain = scripts.get(sc).is_some();
        if !plain && rng.random_bool(0.3) {
            argv.push("--tui-max-addrs".into());
            argv.push(rng.random_range(1..4).to_string());
        }
        if !plain && rng.random_bool(0.3) {
            argv.push("--tui-address-mode".into());
            argv.push((*["ip", "host", "both"].get(rng.random_range(0..3)).unwrap()).to_string());
        }
        if !plain && rng.random_bool(0.35) {
            // GeoIp enabled with a database that knows none of the (private) hop addresses
            argv.push("--geoip-mmdb-file".into());
            argv.push("/nonexistent/GeoLite2-City.mmdb".into());
            argv.push("--tui-geoip-mode".into());
            argv.push((*["off", "short", "long", "location"].get(rng.random_range(0..4)).unwrap()).to_string());
        }
        if !plain && rng.random_bool(0.3) {
            argv.push("--tui-as-mode".into());
            argv.push((*["asn", "prefix", "country-code", "registry", "allocated", "name"].get(rng.random_range(0..6)).unwrap()).to_string());
        }
        if !plain && rng.random_bool(0.3) {
            argv.push("--tui-custom-columns".into());
            argv.push((*["holsravbwdt", "hol", "holsravbwdtjgxi"].get(rng.random_range(0..3)).unwrap()).to_string());
        }
        let cfg = match build_config(Args::parse_from(argv.clone()), ConfigFile::default(), true, false, 1) {
            Ok(c) => c,
            Err(e) => {
                writeln!(f, "{}", json!({"e":"tcfg_error","msg":e.to_string(),"argv":argv})).unwrap();
                continue;
            }
        };
        let tui_config = TuiConfig::new(
            cfg.tui_refresh_rate, cfg.tui_privacy_max_ttl, cfg.tui_preserve_screen, cfg.tui_address_mode, cfg.dns_lookup_as_info,
            cfg.tui_as_mode, cfg.tui_icmp_extension_mode, cfg.tui_geoip_mode, cfg.tui_max_addrs, cfg.tui_theme, &cfg.tui_bindings,
            &cfg.tui_custom_columns, cfg.geoip_mmdb_file.clone(), cfg.dns_resolve_all, String::from("en"), cfg.tui_timezone,
        );
        let mut gens = Vec::new();
        let mut traces = Vec::new();
        for t in 0..ntraces {
            let target = IpAddr::V4(Ipv4Addr::new(203, 0, 113, 10 + t as u8));
            let tracer = Builder::new(target)
                .protocol(Protocol::Udp)
                .multipath_strategy(strat)
                .port_direction(PortDirection::new_fixed_src(5000))
                .max_flows(if strat == MultipathStrategy::Classic { 1 } else { max_flows })
                .max_samples(*[0usize, 1, 10, 256].get(rng.random_range(0..4)).unwrap())
                .first_ttl(first_ttl)
                .build()
                .expect("builder");
            tracer.verif_set_source_addr(SRC);
            traces.push(TraceInfo::new(tracer.clone(), format!("target{t}.example")));
            gens.push(TraceGen {
                tracer,
                silent: (1..30u8).filter(|_| rng.random_range(0..5) == 0).collect(),
                round: 0,
                seq: 33434,
                first_ttl,
                branches: if strat == MultipathStrategy::Classic { 1 } else { rng.random_range(1..4) },
                len: rng.random_range(0..10),
                reach: scripts.get(sc).is_none() && rng.random_bool(0.6),
                mute_rounds: if scripts.get(sc).is_none() && rng.random_range(0..4) == 0 { rng.random_range(1..8) } else { 0 },
                target,
            });
        }
        let resolver = trippy_dns::DnsResolver::start(trippy_dns::Config::new(
            trippy_dns::ResolveMethod::System,
            trippy_dns::IpAddrFamily::Ipv4Only,
            Duration::from_millis(10),
            Duration::from_secs(300),
        ))
        .expect("resolver");
        let sh = Rc::new(RefCell::new(Shared { w: 0, h: 0, cells: Vec::new() }));
        let (w0, h0) = *[(120u16, 40u16), (80, 24), (200, 60), (300, 100), (40, 12), (10, 5), (1, 1), (3, 2)].get(rng.random_range(0..8)).unwrap();
        sh.borrow_mut().resize(w0, h0);
        let backend = CaptureBackend { sh: sh.clone(), cursor: Position::new(0, 0) };
        let mut terminal = Terminal::new(backend).expect("terminal");
        let mut app = TuiApp::new(tui_config, resolver, GeoIpLookup::empty(), traces);
        let steps = if family == "long" { 1500 } else { 250 };
        let ctx = Rc::new(RefCell::new(Ctx { rng, gens, steps_left: steps, events: Vec::new(), last_key: String::new(), sh: sh.clone(), family: family.to_string(),
            default_cols: !argv.iter().any(|a| a == "--tui-custom-columns"),
            script: scripts.get(sc).map(|s| (s.clone(), 0usize, vec![vec![0u8; 8]; s.ntraces])), cur_trace: 0, dialog: 0 }));
        ctx.borrow_mut().events.push(json!({"e":"tcfg","sc":format!("{family}-{seed}-{sc}"),"ntraces":ntraces,"max_flows":if strat == MultipathStrategy::Classic { 1 } else { max_flows },
            "first_ttl":first_ttl,"privacy0":privacy.map_or(-1, i64::from),"w":w0,"h":h0,"argv":argv}));
        let c1 = ctx.clone();
        let script = Box::new(move || -> Step {
            tick_progress();
            let mut c = c1.borrow_mut();
            if c.script.is_some() {
                let Ctx { script, gens, events, last_key, cur_trace, .. } = &mut *c;
                let (scr, pos, flen) = script.as_mut().unwrap();
                let Some(st) = scr.steps.get(*pos).cloned() else { return Step::End };
                *pos += 1;
                last_key.clear();
                return match st.d.as_str() {
                    "tick" => Step::Tick,
                    "addr" => {
                        let len = flen[st.t].iter().copied().max().unwrap_or(0);
                        let mut ev = gens[st.t].apply_addr(len, st.f);
                        ev["d"] = json!("addr");
                        ev["t"] = json!(st.t);
                        ev["f"] = json!(st.f);
                        ev["addrs"] = json!(gens[st.t].addrs0());
                        events.push(ev);
                        Step::Tick
                    }
                    "silent" => {
                        let ev = gens[st.t].apply_silent(st.f.max(1));
                        events.push(ev);
                        Step::Tick
                    }
                    "flow" => {
                        // a new branch answers from its own first hop: a new flow with one hop
                        let nf = flen[st.t].iter().filter(|x| **x > 0).count() as u8 + 1;
                        flen[st.t][usize::from(nf)] = 1;
                        let mut ev = gens[st.t].apply_fixed(nf, 1);
                        ev["d"] = json!("flow");
                        ev["t"] = json!(st.t);
                        ev["f"] = json!(nf);
                        ev["addrs"] = json!(gens[st.t].addrs0());
                        events.push(ev);
                        Step::Tick
                    }
                    "grow" => {
                        let l = flen[st.t][usize::from(st.f)] + 1;
                        flen[st.t][usize::from(st.f)] = l;
                        let mut ev = gens[st.t].apply_fixed(st.f, l);
                        ev["d"] = json!("grow");
                        ev["t"] = json!(st.t);
                        ev["f"] = json!(st.f);
                        ev["addrs"] = json!(gens[st.t].addrs0());
                        events.push(ev);
                        Step::Tick
                    }
                    name => {
                        let cmds = commands();
                        match cmds.iter().find(|(n, _)| *n == name) {
                            Some((n, k)) => {
                                if *n == "clear_trace_data" {
                                    // the flows of the displayed trace are forgotten with its data
                                    flen[*cur_trace].iter_mut().for_each(|x| *x = 0);
                                }
                                *last_key = (*n).to_string();
                                events.push(json!({"e":"key","name":n}));
                                Step::Key(*k)
                            }
                            None => Step::Tick,
                        }
                    }
                };
            }
            if c.steps_left == 0 {
                return Step::End;
            }
            c.steps_left -= 1;
            let roll = c.rng.random_range(0..100);
            if roll < 55 {
                let cmds = commands();
                // privacy and flow keys are favoured in their families
                let (name, key) = if c.dialog != 0 && c.rng.random_bool(0.2) {
                    // leave the dialog now and then: most commands only exist in the main view
                    let close = if c.dialog == 1 { "toggle_help" } else { "toggle_settings" };
                    *cmds.iter().find(|(n, _)| *n == close).unwrap()
                } else if c.family == "privacy" && c.rng.random_bool(0.4) {
                    cmds[23 + c.rng.random_range(0..2)]
                } else {
                    cmds[c.rng.random_range(0..cmds.len())]
                };
                c.last_key = name.to_string();
                c.events.push(json!({"e":"key","name":name}));
                Step::Key(key)
            } else if roll < 85 {
                let Ctx { rng, gens, events, .. } = &mut *c;
                let g = rng.random_range(0..gens.len());
                let k = if rng.random_range(0..6) == 0 { rng.random_range(2..10) } else { 1 };
                for _ in 0..k {
                    let ev = gens[g].apply_round(rng);
                    events.push(ev);
                }
                c.last_key = String::new();
                Step::Tick
            } else if roll < 90 {
                let (w, h) = match c.rng.random_range(0..6) {
                    0 => (1, 1),
                    1 => (c.rng.random_range(1..20), c.rng.random_range(1..8)),
                    2 => (300, 100),
                    _ => (c.rng.random_range(20..200), c.rng.random_range(8..70)),
                };
                let same = {
                    let sh = c.sh.borrow();
                    sh.w == w && sh.h == h
                };
                if !same {
                    c.sh.borrow_mut().resize(w, h);
                    c.events.push(json!({"e":"upd","kind":"resize","w":w,"h":h}));
                }
                c.last_key = String::new();
                Step::Tick
            } else {
                c.last_key = String::new();
                Step::Tick
            }
        });
        let c2 = ctx.clone();
        let observer = Box::new(move |app: &TuiApp| {
            tick_progress();
            CUR_FRAMES.fetch_add(1, std::sync::atomic::Ordering::Relaxed);
            let mut c = c2.borrow_mut();
            let mut ev = frame_event(app, &c.sh.borrow(), &c.last_key);
            if let Ok(d) = std::env::var("VT_DUMP_FRAME") {
                // debugging aid: print the captured screen of frame "<scenario index>:<frame number>"
                let want = format!("{}:{}", CUR_SC.load(std::sync::atomic::Ordering::Relaxed), CUR_FRAMES.load(std::sync::atomic::Ordering::Relaxed));
                if d == want {
                    for r in c.sh.borrow().rows() {
                        eprintln!("|{r}|");
                    }
                    eprintln!("{ev}");
                }
            }
            ev.as_object_mut().unwrap().insert("default_cols".into(), json!(c.default_cols));
            c.events.push(ev);
            c.cur_trace = app.trace_selected;
            c.dialog = if app.show_help { 1 } else if app.show_settings { 2 } else { 0 };
        });
        install(Some(script), Some(observer));
        let r = std::panic::catch_unwind(std::panic::AssertUnwindSafe(|| run_app_scripted(&mut terminal, &mut app)));
        install(None, None);
        let (panicked, msg) = match r {
            Ok(Ok(())) => (false, String::new()),
            Ok(Err(e)) => (false, format!("io:{e}")),
            Err(p) => (
                true,
                p.downcast_ref::<String>().cloned().or_else(|| p.downcast_ref::<&str>().map(|s| (*s).to_string())).unwrap_or_default(),
            ),
        };
        let site = if panicked { LAST_PANIC.with(|p| p.borrow().clone()) } else { String::new() };
        let mut c = ctx.borrow_mut();
        let last_key = c.last_key.clone();
        let nframes = c.events.iter().filter(|e| e["e"] == "frame").count();
        c.events.push(json!({"e":"end","panic":panicked,"msg":msg.chars().take(200).collect::<String>(),"site":site,"last_key":last_key,"frames":nframes}));
        for e in &c.events {
            writeln!(f, "{e}").unwrap();
        }
        stats.push(json!({"id":format!("{family}-{seed}-{sc}"),"cell":format!("t{ntraces}-f{max_flows}-{strat:?}"),"shape":format!("{w0}x{h0}-p{privacy:?}-f{first_ttl}"),
            "delivered":{"genuine":nframes},"events":c.events.len(),"panicked":panicked}));
    }
    CUR_SC.store(usize::MAX, std::sync::atomic::Ordering::Relaxed);
    f.flush().unwrap();
    if let Some(p) = stats_path {
        std::fs::write(p, serde_json::to_string(&stats).unwrap()).unwrap();
    }
    0
}

/// The numeric cells of the hops table as they appear on the captured screen (located by the positions of the
/// column headings), and the values of the displayed state for the same hops.  Fixed point: tenths for what the
/// screen shows, thousandths of a millisecond for the state.
fn table_rows(app: &TuiApp, rows: &[String], flow_known: bool) -> (Vec<Value>, Vec<Value>) {
    let mut trows = Vec::new();
    let mut srows = Vec::new();
    if !flow_known || app.show_help || app.show_settings {
        return (trows, srows);
    }
    let Some(hi) = rows.iter().position(|r| r.contains("Loss%") && r.contains("Snd") && r.contains("Recv") && r.contains("StDev")) else {
        return (trows, srows);
    };
    let header: Vec<char> = rows[hi].chars().collect();
    // the headings are single words, left aligned with their column: a cell spans from the start of its heading
    // to the start of the next one (the column order can be edited from the settings dialog)
    let mut starts: Vec<(usize, String)> = Vec::new();
    let mut i = 0;
    while i < header.len() {
        if header[i] != ' ' && header[i] != '│' && header[i] != '|' {
            let j = (i..header.len()).find(|k| header[*k] == ' ' || header[*k] == '│').unwrap_or(header.len());
            starts.push((i, header[i..j].iter().collect()));
            i = j;
        } else {
            i += 1;
        }
    }
    let span = |label: &str| -> Option<(usize, usize)> {
        let k = starts.iter().position(|(_, l)| l == label)?;
        Some((starts[k].0, starts.get(k + 1).map_or(header.len().saturating_sub(1), |n| n.0)))
    };
    let labels = ["#", "Loss%", "Snd", "Recv", "Last", "Avg", "Best", "Wrst", "StDev"];
    let Some(spans) = labels.iter().map(|l| span(l)).collect::<Option<Vec<_>>>() else {
        return (trows, srows);
    };
    let x10 = |s: &str| -> i64 {
        let s = s.trim().trim_end_matches('%');
        if s.is_empty() {
            return -1;
        }
        match s.split_once('.') {
            Some((a, b)) if b.len() == 1 => a.parse::<i64>().ok().zip(b.parse::<i64>().ok()).map_or(-2, |(a, b)| a * 10 + b),
            _ => -2,
        }
    };
    for r in rows.iter().skip(hi + 1) {
        let cs: Vec<char> = r.chars().collect();
        if cs.len() < header.len() || cs.iter().any(|c| *c == '╰' || *c == '└') {
            break;
        }
        let cell = |k: usize| -> String { cs[spans[k].0..spans[k].1].iter().collect::<String>().trim().to_string() };
        // the first line of a hop carries its ttl (further lines list more addresses)
        let Ok(ttl) = cell(0).parse::<u8>() else { continue };
        let (Ok(snd), Ok(recv)) = (cell(2).parse::<i64>(), cell(3).parse::<i64>()) else { continue };
        trows.push(json!({"ttl":ttl,"loss":x10(&cell(1)),"snd":snd,"recv":recv,"last":x10(&cell(4)),"avg":x10(&cell(5)),"best":x10(&cell(6)),
            "wrst":x10(&cell(7)),"sd":x10(&cell(8))}));
    }
    let ms = |v: f64| -> i64 { (v * 1000.0).round() as i64 };
    for h in app.tracer_data().hops_for_flow(app.selected_flow) {
        srows.push(json!({"ttl":h.ttl(),"sent":h.total_sent(),"recv":h.total_recv(),"last":h.last_ms().map_or(-1, ms),"avg":ms(h.avg_ms()),
            "best":h.best_ms().map_or(-1, ms),"wrst":h.worst_ms().map_or(-1, ms),"sd":ms(h.stddev_ms())}));
    }
    (trows, srows)
}

fn frame_event(app: &TuiApp, sh: &Shared, last_key: &str) -> Value {
    let st: &State = app.tracer_data();
    let flow = app.selected_flow;
    let flow_ids: Vec<u64> = st.flows().iter().map(|(_, id)| id.0).collect();
    let flow_known = flow.0 == 0 || flow_ids.contains(&flow.0);
    let hops: Vec<(u8, Vec<IpAddr>)> = if flow_known {
        st.hops_for_flow(flow).iter().map(|h| (h.ttl(), h.addrs().copied().collect())).collect()
    } else {
        Vec::new()
    };
    let hop_count = if flow_known { hops.len() as i64 } else { -1 };
    let sel = app.table_state.selected().map_or(-1, |s| s as i64);
    let naddrs_sel = if sel >= 0 && (sel as usize) < hops.len() { hops[sel as usize].1.len() as i64 } else { -1 };
    let rows = sh.rows();
    let text = rows.join("\n");
    let (trows, srows) = table_rows(app, &rows, flow_known);
    // which hops' addresses are visible anywhere on the screen (all flows' hops share the addresses of
    // the default flow)
    let all_hops: Vec<(u8, Vec<IpAddr>)> = st.hops().iter().map(|h| (h.ttl(), h.addrs().copied().collect())).collect();
    // the address of the target of the displayed trace is shown by the header whatever the privacy level
    // (finding F13): hops are matched on their other addresses, the target address is reported separately
    let target_ip = app.trace_info.get(app.trace_selected).map(|t| t.data.target_addr());
    let target_on_screen = target_ip.is_some_and(|a| text.contains(&a.to_string()));
    let mut found: Vec<u8> = Vec::new();
    let mut tfound: Vec<u8> = Vec::new();
    let mut vis: Vec<u8> = Vec::new();
    let mut resp: Vec<u8> = Vec::new();
    for (ttl, addrs) in &all_hops {
        if *ttl == 0 {
            continue;
        }
        if !addrs.is_empty() {
            resp.push(*ttl);
        }
        // an address that several hops share (a host reached at different distances as the path changes) is
        // attributed to none of them: it may be hidden in one row and must be shown in another
        let unique = |a: &IpAddr| all_hops.iter().filter(|(_, o)| o.contains(a)).count() == 1;
        if addrs.iter().any(|a| Some(*a) != target_ip && unique(a) && text.contains(&a.to_string())) {
            found.push(*ttl);
        }
        if target_on_screen && addrs.iter().any(|a| Some(*a) == target_ip) {
            tfound.push(*ttl);
        }
        if addrs.iter().any(|a| text.contains(&a.to_string())) {
            vis.push(*ttl);
        }
    }
    let target = app.trace_info.get(app.trace_selected).map(|t| t.data.target_addr().to_string()).unwrap_or_default();
    json!({"e":"frame","sel":sel,"flow":flow.0,"flow_known":flow_known,"addr_sel":app.selected_hop_address,"trace":app.trace_selected,
        "ntraces":app.trace_info.len(),"tab":app.settings_tab_selected,"item":app.setting_table_state.selected().map_or(-1, |s| s as i64),
        "show_help":app.show_help,"show_settings":app.show_settings,"show_flows":app.show_flows,"show_details":app.show_hop_details,
        "show_chart":app.show_chart,"show_map":app.show_map,"frozen":app.frozen_start.is_some(),
        "privacy":app.tui_config.privacy_max_ttl.map_or(-1, i64::from),"hop_count":hop_count,"nflows":flow_ids.len(),"flow_ids":flow_ids,
        "fc":app.flow_counts.iter().map(|(id, _)| id.0).collect::<Vec<_>>(),"naddrs_sel":naddrs_sel,"max_addrs":app.tui_config.max_addrs.map_or(-1, i64::from),
        "w":sh.w,"h":sh.h,"found":found,"tfound":tfound,"vis":vis,"resp":resp,"src_found":text.contains(&SRC.to_string()),"target_found":text.contains(&target),
        "rows":settings_rows(app),"cols":app_columns(app).into_iter().map(|(n, s)| json!({"id":n,"shown":s})).collect::<Vec<_>>(),
        "trows":trows,"srows":srows,"hops0":all_hops.len(),"addrs0":all_hops.iter().map(|(_, a)| a.len()).collect::<Vec<_>>(),
        "key":last_key,"amode":format!("{:?}", app.tui_config.address_mode)})
}
