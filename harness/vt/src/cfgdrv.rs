//! C16 driver (filled in below).
pub fn run(_seed: u64, _n: usize, _family: &str, _out: &str, _stats: Option<&str>) -> i32 {
    2
}
