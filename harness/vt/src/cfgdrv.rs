//! C16 driver: the real option layering (`Args` x `ConfigFile` -> `TrippyConfig::build_config`).
//!
//! Family `layer`: every option x {absent, file, CLI, both} x two values, over a random background of other
//! options given in random layers.  The documented default is read from the `--help` text of the real
//! `Args` (what `trip --help` prints), with `trippy-config-sample.toml` as the fallback where the help text
//! states none.  Logged per case: the option, the canonical CLI / file / documented-default values and the
//! effective value read back from the `TrippyConfig`; TLC evaluates the layering operator on them.
//!
//! Family `clirun`: random configurations including boundary and invalid values; every configuration the
//! command-line layer accepts is projected onto the tracer builder exactly as `start_tracer` does and
//! written as a scenario for the simulated-network harness (`vh sim --scenarios`), which runs it.

use clap::{CommandFactory, Parser};
use rand::rngs::StdRng;
use rand::{Rng, SeedableRng};
use serde_json::{json, Value};
use std::collections::BTreeMap;
use std::io::Write;
use trippy_core::{MultipathStrategy, PortDirection, PrivilegeMode, Protocol};
use trippy_tui::verif::{build_config, Args, ConfigFile, TrippyConfig};

#[derive(Clone, Copy, PartialEq)]
enum Kind {
    Int,
    /// zero, `auto` and absence are the same value
    ZeroAuto,
    /// an optional integer; the word is the documented name of absence
    OptInt,
    Dur,
    Enum,
    Str,
    Flag,
}

struct Opt {
    name: &'static str,
    section: &'static str,
    kind: Kind,
    vals: &'static [&'static str],
    /// other options that must have a given value for the values above to pass validation
    needs: &'static [(&'static str, &'static str)],
    /// options that may not be given together with this one
    excl: &'static [&'static str],
    get: fn(&TrippyConfig) -> String,
}

fn kebab(s: &str) -> String {
    let mut out = String::new();
    for (i, c) in s.chars().enumerate() {
        if c.is_uppercase() && i > 0 {
            out.push('-');
        }
        out.push(c.to_ascii_lowercase());
    }
    out
}

fn dur_us(s: &str) -> Option<u128> {
    let s = s.trim();
    let (num, unit) = s.split_at(s.find(|c: char| !c.is_ascii_digit())?);
    let n: u128 = num.parse().ok()?;
    Some(match unit.trim() {
        "us" => n,
        "ms" => n * 1_000,
        "s" => n * 1_000_000,
        "m" => n * 60_000_000,
        _ => return None,
    })
}

fn canon(kind: Kind, s: &str) -> String {
    let s = s.trim();
    match kind {
        Kind::Int => s.parse::<u64>().map_or_else(|_| s.to_string(), |n| n.to_string()),
        Kind::ZeroAuto => match s {
            "0" | "auto" | "none" => "auto".into(),
            _ => s.to_string(),
        },
        Kind::OptInt | Kind::Str => s.to_string(),
        Kind::Dur => dur_us(s).map_or_else(|| s.to_string(), |u| u.to_string()),
        Kind::Enum => s.to_ascii_lowercase(),
        Kind::Flag => s.to_ascii_lowercase(),
    }
}

fn toml_lit(kind: Kind, s: &str) -> String {
    match kind {
        Kind::Int | Kind::ZeroAuto | Kind::OptInt | Kind::Flag => s.to_string(),
        _ => format!("{s:?}"),
    }
}

fn us(d: std::time::Duration) -> String {
    d.as_micros().to_string()
}

fn dbg<T: std::fmt::Debug>(x: T) -> String {
    kebab(&format!("{x:?}"))
}

fn opts() -> Vec<Opt> {
    vec![
        Opt { name: "mode", section: "trippy", kind: Kind::Enum, vals: &["stream", "pretty", "json", "silent"], needs: &[], excl: &["dns-resolve-all"], get: |c| dbg(c.mode) },
        Opt { name: "unprivileged", section: "trippy", kind: Kind::Flag, vals: &["true"], needs: &[], excl: &["multipath-strategy"], get: |c| (c.privilege_mode == PrivilegeMode::Unprivileged).to_string() },
        Opt { name: "log-format", section: "trippy", kind: Kind::Enum, vals: &["compact", "json", "chrome"], needs: &[], excl: &[], get: |c| dbg(c.log_format) },
        Opt { name: "log-filter", section: "trippy", kind: Kind::Str, vals: &["trippy=info", "x=debug"], needs: &[], excl: &[], get: |c| c.log_filter.clone() },
        Opt { name: "log-span-events", section: "trippy", kind: Kind::Enum, vals: &["active", "full"], needs: &[], excl: &[], get: |c| dbg(c.log_span_events) },
        Opt { name: "protocol", section: "strategy", kind: Kind::Enum, vals: &["udp", "tcp", "icmp"], needs: &[], excl: &["dns-resolve-all"], get: |c| dbg(c.protocol) },
        Opt { name: "addr-family", section: "strategy", kind: Kind::Enum, vals: &["ipv4", "ipv6", "ipv6-then-ipv4", "system"], needs: &[], excl: &[], get: |c| match format!("{:?}", c.addr_family).as_str() {
            "Ipv4Only" => "ipv4".into(),
            "Ipv6Only" => "ipv6".into(),
            "Ipv6thenIpv4" => "ipv6-then-ipv4".into(),
            "Ipv4thenIpv6" => "ipv4-then-ipv6".into(),
            "System" => "system".into(),
            o => o.to_string(),
        } },
        Opt { name: "target-port", section: "strategy", kind: Kind::Int, vals: &["443", "8080"], needs: &[("protocol", "tcp")], excl: &["source-port", "multipath-strategy", "dns-resolve-all"], get: |c| match c.port_direction {
            PortDirection::FixedDest(p) | PortDirection::FixedBoth(_, p) => p.0.to_string(),
            _ => "auto".into(),
        } },
        Opt { name: "source-port", section: "strategy", kind: Kind::OptInt, vals: &["5000", "6000"], needs: &[("protocol", "tcp")], excl: &["target-port", "multipath-strategy", "dns-resolve-all"], get: |c| match c.port_direction {
            PortDirection::FixedSrc(p) | PortDirection::FixedBoth(p, _) => p.0.to_string(),
            _ => "auto".into(),
        } },
        Opt { name: "source-address", section: "strategy", kind: Kind::Str, vals: &["10.1.2.3", "192.168.1.1"], needs: &[], excl: &["interface"], get: |c| c.source_addr.map_or_else(|| "auto".into(), |a| a.to_string()) },
        Opt { name: "interface", section: "strategy", kind: Kind::Str, vals: &["eth0", "lo"], needs: &[], excl: &["source-address"], get: |c| c.interface.clone().unwrap_or_else(|| "auto".into()) },
        Opt { name: "min-round-duration", section: "strategy", kind: Kind::Dur, vals: &["500ms", "250ms"], needs: &[], excl: &[], get: |c| us(c.min_round_duration) },
        Opt { name: "max-round-duration", section: "strategy", kind: Kind::Dur, vals: &["2s", "3s"], needs: &[], excl: &[], get: |c| us(c.max_round_duration) },
        Opt { name: "grace-duration", section: "strategy", kind: Kind::Dur, vals: &["50ms", "200ms"], needs: &[], excl: &[], get: |c| us(c.grace_duration) },
        Opt { name: "initial-sequence", section: "strategy", kind: Kind::Int, vals: &["1000", "2000"], needs: &[], excl: &[], get: |c| c.initial_sequence.to_string() },
        Opt { name: "multipath-strategy", section: "strategy", kind: Kind::Enum, vals: &["paris", "dublin"], needs: &[("protocol", "udp")], excl: &["unprivileged", "target-port", "source-port", "dns-resolve-all"], get: |c| dbg(c.multipath_strategy) },
        Opt { name: "max-inflight", section: "strategy", kind: Kind::Int, vals: &["10", "30"], needs: &[], excl: &[], get: |c| c.max_inflight.to_string() },
        Opt { name: "first-ttl", section: "strategy", kind: Kind::Int, vals: &["2", "3"], needs: &[], excl: &[], get: |c| c.first_ttl.to_string() },
        Opt { name: "max-ttl", section: "strategy", kind: Kind::Int, vals: &["30", "40"], needs: &[], excl: &[], get: |c| c.max_ttl.to_string() },
        Opt { name: "packet-size", section: "strategy", kind: Kind::Int, vals: &["100", "200"], needs: &[], excl: &[], get: |c| c.packet_size.to_string() },
        Opt { name: "payload-pattern", section: "strategy", kind: Kind::Int, vals: &["1", "255"], needs: &[], excl: &[], get: |c| c.payload_pattern.to_string() },
        Opt { name: "tos", section: "strategy", kind: Kind::Int, vals: &["8", "16"], needs: &[], excl: &[], get: |c| c.tos.to_string() },
        Opt { name: "icmp-extensions", section: "strategy", kind: Kind::Flag, vals: &["true"], needs: &[], excl: &[], get: |c| (format!("{:?}", c.icmp_extension_parse_mode) == "Enabled").to_string() },
        Opt { name: "read-timeout", section: "strategy", kind: Kind::Dur, vals: &["20ms", "50ms"], needs: &[], excl: &[], get: |c| us(c.read_timeout) },
        Opt { name: "max-samples", section: "strategy", kind: Kind::Int, vals: &["10", "100"], needs: &[], excl: &[], get: |c| c.max_samples.to_string() },
        Opt { name: "max-flows", section: "strategy", kind: Kind::Int, vals: &["10", "32"], needs: &[], excl: &[], get: |c| c.max_flows.to_string() },
        Opt { name: "dns-resolve-method", section: "dns", kind: Kind::Enum, vals: &["resolv", "google", "cloudflare"], needs: &[], excl: &[], get: |c| dbg(c.dns_resolve_method) },
        Opt { name: "dns-resolve-all", section: "dns", kind: Kind::Flag, vals: &["true"], needs: &[], excl: &["mode", "protocol", "target-port", "source-port", "multipath-strategy"], get: |c| c.dns_resolve_all.to_string() },
        Opt { name: "dns-timeout", section: "dns", kind: Kind::Dur, vals: &["1s", "2s"], needs: &[], excl: &[], get: |c| us(c.dns_timeout) },
        Opt { name: "dns-ttl", section: "dns", kind: Kind::Dur, vals: &["60s", "600s"], needs: &[], excl: &[], get: |c| us(c.dns_ttl) },
        Opt { name: "dns-lookup-as-info", section: "dns", kind: Kind::Flag, vals: &["true"], needs: &[("dns-resolve-method", "resolv")], excl: &[], get: |c| c.dns_lookup_as_info.to_string() },
        Opt { name: "tui-address-mode", section: "tui", kind: Kind::Enum, vals: &["ip", "both"], needs: &[], excl: &[], get: |c| dbg(c.tui_address_mode) },
        Opt { name: "tui-as-mode", section: "tui", kind: Kind::Enum, vals: &["prefix", "country-code", "name"], needs: &[], excl: &[], get: |c| dbg(c.tui_as_mode) },
        Opt { name: "tui-custom-columns", section: "tui", kind: Kind::Str, vals: &["hol", "holsr"], needs: &[], excl: &[], get: |c| c.tui_custom_columns.0.iter().map(ToString::to_string).collect() },
        Opt { name: "tui-icmp-extension-mode", section: "tui", kind: Kind::Enum, vals: &["mpls", "full", "all"], needs: &[], excl: &[], get: |c| dbg(c.tui_icmp_extension_mode) },
        Opt { name: "tui-geoip-mode", section: "tui", kind: Kind::Enum, vals: &["short", "long", "location"], needs: &[("geoip-mmdb-file", "a.mmdb")], excl: &[], get: |c| dbg(c.tui_geoip_mode) },
        Opt { name: "tui-max-addrs", section: "tui", kind: Kind::ZeroAuto, vals: &["2", "5", "0"], needs: &[], excl: &[], get: |c| c.tui_max_addrs.map_or_else(|| "auto".into(), |n| n.to_string()) },
        Opt { name: "tui-preserve-screen", section: "tui", kind: Kind::Flag, vals: &["true"], needs: &[], excl: &[], get: |c| c.tui_preserve_screen.to_string() },
        Opt { name: "tui-refresh-rate", section: "tui", kind: Kind::Dur, vals: &["200ms", "500ms"], needs: &[], excl: &[], get: |c| us(c.tui_refresh_rate) },
        Opt { name: "tui-privacy-max-ttl", section: "tui", kind: Kind::OptInt, vals: &["2", "5", "0"], needs: &[], excl: &[], get: |c| c.tui_privacy_max_ttl.map_or_else(|| "none".into(), |n| n.to_string()) },
        Opt { name: "tui-locale", section: "tui", kind: Kind::Str, vals: &["fr", "de"], needs: &[], excl: &[], get: |c| c.tui_locale.clone().unwrap_or_else(|| "auto".into()) },
        Opt { name: "tui-timezone", section: "tui", kind: Kind::Str, vals: &["Europe/Paris", "UTC"], needs: &[], excl: &[], get: |c| c.tui_timezone.map_or_else(|| "auto".into(), |t| t.to_string()) },
        Opt { name: "geoip-mmdb-file", section: "tui", kind: Kind::Str, vals: &["a.mmdb", "b.mmdb"], needs: &[], excl: &[], get: |c| c.geoip_mmdb_file.clone().unwrap_or_else(|| "none".into()) },
        Opt { name: "report-cycles", section: "report", kind: Kind::Int, vals: &["5", "20"], needs: &[], excl: &[], get: |c| c.report_cycles.to_string() },
        // items of the two item-wise layered tables
        Opt { name: "theme:bg-color", section: "theme-colors", kind: Kind::Enum, vals: &["blue", "red"], needs: &[], excl: &[], get: |c| dbg(c.tui_theme.bg).replace('-', "") },
        Opt { name: "theme:text-color", section: "theme-colors", kind: Kind::Enum, vals: &["green", "yellow"], needs: &[], excl: &[], get: |c| dbg(c.tui_theme.text).replace('-', "") },
        Opt { name: "binding:toggle-help", section: "bindings", kind: Kind::Str, vals: &["y", "ctrl+y"], needs: &[], excl: &[], get: |c| c.tui_bindings.toggle_help.to_string() },
        Opt { name: "binding:toggle-freeze", section: "bindings", kind: Kind::Str, vals: &["u", "ctrl+u"], needs: &[], excl: &[], get: |c| c.tui_bindings.toggle_freeze.to_string() },
    ]
}

/// Documented defaults: `[default: X]` in the help text of the real `Args`.
fn help_defaults() -> BTreeMap<String, String> {
    let mut out = BTreeMap::new();
    let cmd = Args::command();
    for a in cmd.get_arguments() {
        let Some(long) = a.get_long() else { continue };
        let help = a.get_long_help().or_else(|| a.get_help()).map(ToString::to_string).unwrap_or_default();
        let flat: String = help.split_whitespace().collect::<Vec<_>>().join(" ");
        if let Some(i) = flat.find("[default:") {
            if let Some(j) = flat[i..].find(']') {
                out.insert(long.to_string(), flat[i + 9..i + j].trim().to_string());
            }
        }
    }
    out
}

/// Fallback documentation: the sample configuration file shipped with the sources lists every option with
/// its default value.
fn sample_defaults() -> BTreeMap<(String, String), String> {
    let mut out = BTreeMap::new();
    let path = std::env::var("VT_SAMPLE_CONFIG").unwrap_or_else(|_| "/repo/trippy-config-sample.toml".into());
    let Ok(txt) = std::fs::read_to_string(path) else { return out };
    let Ok(v) = txt.parse::<toml::Value>() else { return out };
    if let Some(t) = v.as_table() {
        for (sec, tv) in t {
            if let Some(tt) = tv.as_table() {
                for (k, val) in tt {
                    let s = match val {
                        toml::Value::String(s) => s.clone(),
                        toml::Value::Integer(i) => i.to_string(),
                        toml::Value::Boolean(b) => b.to_string(),
                        toml::Value::Float(x) => x.to_string(),
                        _ => continue,
                    };
                    out.insert((sec.clone(), k.clone()), s);
                }
            }
        }
    }
    out
}

static SHORTHAND: std::sync::atomic::AtomicUsize = std::sync::atomic::AtomicUsize::new(0);

#[derive(Clone, Copy, PartialEq, Debug)]
enum Layer {
    Cli,
    File,
}

/// One assignment of values to options in layers -> (argv, toml text).
fn render(assign: &[(&Opt, &str, Layer)]) -> (Vec<String>, String) {
    let mut argv: Vec<String> = vec!["trip".into(), "example.com".into()];
    let mut sections: BTreeMap<&str, Vec<String>> = BTreeMap::new();
    let mut themes = Vec::new();
    let mut binds = Vec::new();
    for (o, v, l) in assign {
        let key = o.name.split(':').next_back().unwrap_or(o.name);
        match l {
            Layer::Cli => {
                if o.name.starts_with("theme:") {
                    themes.push(format!("{key}={v}"));
                } else if o.name.starts_with("binding:") {
                    binds.push(format!("{key}={v}"));
                } else if (o.name == "protocol" || (o.name == "addr-family" && (*v == "ipv4" || *v == "ipv6")))
                    && SHORTHAND.fetch_add(1, std::sync::atomic::Ordering::Relaxed) % 2 == 0
                {
                    // the shorthand spelling of the same command-line value: --udp / --tcp / --icmp, --ipv4 / --ipv6
                    argv.push(format!("--{v}"));
                } else if o.kind == Kind::Flag {
                    if *v == "true" {
                        argv.push(format!("--{}", o.name));
                    }
                } else {
                    argv.push(format!("--{}", o.name));
                    argv.push((*v).to_string());
                }
            }
            Layer::File => {
                let kind = if o.name.contains(':') { Kind::Str } else { o.kind };
                sections.entry(o.section).or_default().push(format!("{key} = {}", toml_lit(kind, v)));
            }
        }
    }
    if !themes.is_empty() {
        argv.push("--tui-theme-colors".into());
        argv.push(themes.join(","));
    }
    if !binds.is_empty() {
        argv.push("--tui-key-bindings".into());
        argv.push(binds.join(","));
    }
    let mut toml = String::new();
    for (sec, lines) in &sections {
        toml.push_str(&format!("[{sec}]\n{}\n", lines.join("\n")));
    }
    (argv, toml)
}

fn build(argv: &[String], toml_txt: &str, pid: u16) -> Result<TrippyConfig, String> {
    let args = Args::try_parse_from(argv).map_err(|e| format!("cli: {}", e.to_string().lines().next().unwrap_or("")))?;
    let file: ConfigFile = toml::from_str(toml_txt).map_err(|e| format!("file: {}", e.to_string().lines().next().unwrap_or("")))?;
    let r = std::panic::catch_unwind(std::panic::AssertUnwindSafe(|| build_config(args, file, true, false, pid)));
    match r {
        Ok(Ok(c)) => Ok(c),
        Ok(Err(e)) => Err(format!("config: {}", e.to_string().lines().next().unwrap_or(""))),
        Err(_) => Err("panic".into()),
    }
}

fn find<'a>(all: &'a [Opt], name: &str) -> &'a Opt {
    all.iter().find(|o| o.name == name).expect("option")
}

/// A random background of other options (each in a random layer) compatible with the fixed assignments.
fn background<'a>(all: &'a [Opt], rng: &mut StdRng, main: &'a Opt, fixed: &mut Vec<(&'a Opt, &'static str, Layer)>, max: usize) {
    let n = rng.random_range(0..=max);
    for _ in 0..n {
        let o = &all[rng.random_range(0..all.len())];
        let taken = |fixed: &Vec<(&Opt, &str, Layer)>, name: &str| fixed.iter().any(|(f, _, _)| f.name == name);
        if o.name == main.name || taken(fixed, o.name) || main.excl.contains(&o.name) || o.excl.contains(&main.name) {
            continue;
        }
        if fixed.iter().any(|(f, _, _)| f.excl.contains(&o.name) || o.excl.contains(&f.name)) {
            continue;
        }
        // its own requirements must be compatible with what is fixed already (and with the main option)
        let mut ok = true;
        let mut extra = Vec::new();
        for (k, v) in o.needs {
            if *k == main.name || main.excl.contains(k) {
                ok = false;
                break;
            }
            match fixed.iter().find(|(f, _, _)| f.name == *k) {
                Some((_, fv, _)) if fv == v => {}
                Some(_) => {
                    ok = false;
                    break;
                }
                None => extra.push((find(all, k), *v)),
            }
        }
        if !ok {
            continue;
        }
        for (eo, ev) in extra {
            let l = if rng.random_bool(0.5) { Layer::Cli } else { Layer::File };
            fixed.push((eo, ev, l));
        }
        let v = o.vals[rng.random_range(0..o.vals.len())];
        let l = if rng.random_bool(0.5) { Layer::Cli } else { Layer::File };
        // a flag in the file layer may also be false
        fixed.push((o, v, l));
    }
}

fn run_layer(seed: u64, n: usize, out: &str) -> (i32, Vec<Value>) {
    let all = opts();
    let help = help_defaults();
    let sample = sample_defaults();
    let mut rng = StdRng::seed_from_u64(seed ^ 0xc16);
    let mut f = std::io::BufWriter::new(std::fs::File::create(out).expect("create out"));
    let mut stats = Vec::new();
    writeln!(f, "{}", json!({"e":"ccfg","options":all.len(),"documented":help.len()})).unwrap();
    let mut case = 0usize;
    // n = number of passes over the whole option table
    for pass in 0..n {
        for o in &all {
            let key = o.name.split(':').next_back().unwrap_or(o.name);
            let doc = if o.name.contains(':') { None } else { help.get(o.name).cloned() }
                .or_else(|| sample.get(&(o.section.to_string(), key.to_string())).cloned());
            let dflt = doc.as_ref().map_or_else(|| "?".to_string(), |d| canon(o.kind, d));
            let a = o.vals[pass % o.vals.len()];
            let b = o.vals[(pass + 1) % o.vals.len()];
            // (cli value, file value): absent / file / CLI / both (different values) / both (same) ; a flag in
            // the file layer may also be an explicit false
            let mut cells: Vec<(Option<&str>, Option<&str>)> = vec![(None, None), (None, Some(a)), (Some(a), None), (Some(a), Some(b)), (Some(b), Some(a))];
            // the documented default given explicitly on the command line still beats another value in the file
            let doc_raw: Option<String> = doc.clone().filter(|d| matches!(o.kind, Kind::Int | Kind::Dur | Kind::Enum) && !d.contains(' ') && d != "auto" && d != "none");
            if let Some(d) = doc_raw.as_deref() {
                if canon(o.kind, d) != canon(o.kind, a) {
                    cells.push((Some(d), Some(a)));
                }
            }
            if o.kind == Kind::Flag {
                cells.push((None, Some("false")));
                cells.push((Some("true"), Some("false")));
            }
            for (cv, fv) in cells {
                let mut fixed: Vec<(&Opt, &'static str, Layer)> = Vec::new();
                for (k, v) in o.needs {
                    let l = if rng.random_bool(0.5) { Layer::Cli } else { Layer::File };
                    fixed.push((find(&all, k), v, l));
                }
                background(&all, &mut rng, o, &mut fixed, 4);
                let nbg = fixed.len();
                let mut assign: Vec<(&Opt, &str, Layer)> = fixed.iter().map(|(o, v, l)| (*o, *v, *l)).collect();
                if let Some(v) = cv {
                    assign.push((o, v, Layer::Cli));
                }
                if let Some(v) = fv {
                    assign.push((o, v, Layer::File));
                }
                let (argv, toml_txt) = render(&assign);
                let cli_tok = cv.map_or_else(|| "-".to_string(), |v| canon(o.kind, v));
                let file_tok = fv.map_or_else(|| "-".to_string(), |v| canon(o.kind, v));
                case += 1;
                match build(&argv, &toml_txt, 1) {
                    Ok(cfg) => {
                        let eff = canon(o.kind, &(o.get)(&cfg));
                        writeln!(f, "{}", json!({"e":"layer","case":case,"opt":o.name,"cli":cli_tok,"file":file_tok,"dflt":dflt,"eff":eff,"bg":nbg,
                            "argv":argv,"toml":toml_txt})).unwrap();
                        stats.push(json!({"id":format!("layer-{seed}-{case}"),"cell":o.name,"shape":format!("{}{}", u8::from(cv.is_some()), u8::from(fv.is_some())),
                            "delivered":{"genuine":1},"events":1}));
                    }
                    Err(msg) => {
                        writeln!(f, "{}", json!({"e":"layer_rej","case":case,"opt":o.name,"cli":cli_tok,"file":file_tok,"msg":msg,"argv":argv,"toml":toml_txt})).unwrap();
                    }
                }
            }
        }
    }
    // independence: the option under test given in neither layer, every OTHER option at each of its boundary values in
    // either layer (min-round-duration above the default max-round-duration, first-ttl above the default max-ttl, ...).
    // Such a configuration may be rejected as a whole; when it is accepted the effective value of the option under
    // test is still its documented default.
    for o in &all {
        let key = o.name.split(':').next_back().unwrap_or(o.name);
        let doc = if o.name.contains(':') { None } else { help.get(o.name).cloned() }
            .or_else(|| sample.get(&(o.section.to_string(), key.to_string())).cloned());
        let dflt = doc.as_ref().map_or_else(|| "?".to_string(), |d| canon(o.kind, d));
        for b in &all {
            let bkey = b.name.split(':').next_back().unwrap_or(b.name);
            if b.name == o.name || o.excl.contains(&b.name) || b.excl.contains(&o.name) || !b.needs.is_empty() || o.needs.iter().any(|(k, _)| *k == b.name) {
                continue;
            }
            for bv in edgy(bkey) {
                for bl in [Layer::Cli, Layer::File] {
                    let mut assign: Vec<(&Opt, &str, Layer)> = Vec::new();
                    for (k, v) in o.needs {
                        assign.push((find(&all, k), v, Layer::Cli));
                    }
                    assign.push((b, bv, bl));
                    let (argv, toml_txt) = render(&assign);
                    case += 1;
                    match build(&argv, &toml_txt, 1) {
                        Ok(cfg) => {
                            let eff = canon(o.kind, &(o.get)(&cfg));
                            writeln!(f, "{}", json!({"e":"layer","case":case,"opt":o.name,"cli":"-","file":"-","dflt":dflt,"eff":eff,"bg":assign.len(),
                                "cross":b.name,"argv":argv,"toml":toml_txt})).unwrap();
                            if n > 0 && case % 16 == 0 {
                                stats.push(json!({"id":format!("cross-{seed}-{case}"),"cell":o.name,"shape":format!("x-{}", b.name),"delivered":{"genuine":1},"events":1}));
                            }
                        }
                        Err(_) => {}
                    }
                }
            }
        }
    }
    writeln!(f, "{}", json!({"e":"cend","cases":case})).unwrap();
    f.flush().unwrap();
    (0, stats)
}

/// Values the command-line layer should reject or that sit on a boundary (family `clirun`).
fn edgy(name: &str) -> &'static [&'static str] {
    match name {
        "first-ttl" => &["0", "1", "2", "64", "254", "255"],
        "max-ttl" => &["0", "1", "2", "254", "255"],
        "max-inflight" => &["0", "1", "2", "255"],
        "initial-sequence" => &["0", "1", "64511", "64512", "65535"],
        "packet-size" => &["0", "27", "28", "47", "48", "1024", "1025", "65535"],
        "read-timeout" => &["1ms", "10ms", "100ms", "1s"],
        "grace-duration" => &["1ms", "10ms", "1s", "2s"],
        "min-round-duration" => &["0ms", "10ms", "2s"],
        "max-round-duration" => &["0ms", "10ms", "1s"],
        "max-samples" => &["0", "1"],
        "max-flows" => &["0", "1"],
        "target-port" => &["0", "1", "80", "65535"],
        "source-port" => &["0", "1023", "1024", "65535"],
        "protocol" => &["icmp", "udp", "tcp"],
        "multipath-strategy" => &["classic", "paris", "dublin"],
        "addr-family" => &["ipv4", "ipv6", "ipv4-then-ipv6", "ipv6-then-ipv4", "system"],
        "mode" => &["tui", "stream", "pretty", "json", "silent", "flows", "dot"],
        "report-cycles" => &["0", "1", "3"],
        "payload-pattern" => &["0", "255"],
        "tos" => &["0", "255"],
        _ => &[],
    }
}

fn run_clirun(seed: u64, n: usize, out: &str, scenarios: Option<&str>) -> (i32, Vec<Value>) {
    let all = opts();
    let mut rng = StdRng::seed_from_u64(seed ^ 0xc16c);
    let mut f = std::io::BufWriter::new(std::fs::File::create(out).expect("create out"));
    let mut sf = scenarios.map(|p| std::io::BufWriter::new(std::fs::File::create(p).expect("create scenarios")));
    let mut stats = Vec::new();
    let names = ["first-ttl", "max-ttl", "max-inflight", "initial-sequence", "packet-size", "read-timeout", "grace-duration", "min-round-duration",
        "max-round-duration", "max-samples", "max-flows", "target-port", "source-port", "protocol", "multipath-strategy", "addr-family", "mode",
        "report-cycles", "payload-pattern", "tos", "unprivileged", "icmp-extensions"];
    for i in 0..n {
        let mut assign: Vec<(&Opt, &str, Layer)> = Vec::new();
        let k = rng.random_range(1..=6);
        for _ in 0..k {
            let name = names[rng.random_range(0..names.len())];
            if assign.iter().any(|(o, _, _)| o.name == name) {
                continue;
            }
            let o = find(&all, name);
            let e = edgy(name);
            let v = if e.is_empty() { o.vals[0] } else { e[rng.random_range(0..e.len())] };
            let l = if rng.random_bool(0.5) { Layer::Cli } else { Layer::File };
            assign.push((o, v, l));
        }
        let (argv, toml_txt) = render(&assign);
        let pid: u16 = *[1u16, 1234, 65535].get(rng.random_range(0..3)).unwrap();
        match build(&argv, &toml_txt, pid) {
            Ok(cfg) => {
                // the projection onto the tracer builder, as trippy-tui's start_tracer does
                let fam = match format!("{:?}", cfg.addr_family).as_str() {
                    "Ipv6Only" | "Ipv6thenIpv4" => 6,
                    _ => 4,
                };
                let (ports, sport, dport) = match cfg.port_direction {
                    PortDirection::None => ("none", 0, 0),
                    PortDirection::FixedSrc(s) => ("src", s.0, 0),
                    PortDirection::FixedDest(d) => ("dest", 0, d.0),
                    PortDirection::FixedBoth(s, d) => ("both", s.0, d.0),
                };
                let dist = rng.random_range(1..=6u8);
                let id = format!("clirun-{seed}-{i}");
                let sc = json!({
                    "id": id, "fam": fam,
                    "proto": match cfg.protocol { Protocol::Icmp => "icmp", Protocol::Udp => "udp", Protocol::Tcp => "tcp" },
                    "strat": match cfg.multipath_strategy { MultipathStrategy::Classic => "classic", MultipathStrategy::Paris => "paris", MultipathStrategy::Dublin => "dublin" },
                    "ports": ports, "sport": sport, "dport": dport,
                    "privileged": cfg.privilege_mode == PrivilegeMode::Privileged,
                    "ext": format!("{:?}", cfg.icmp_extension_parse_mode) == "Enabled",
                    "first_ttl": cfg.first_ttl, "max_ttl": cfg.max_ttl, "max_inflight": cfg.max_inflight,
                    "init_seq": cfg.initial_sequence, "packet_size": cfg.packet_size, "pattern": cfg.payload_pattern, "tos": cfg.tos,
                    "trace_id": pid,
                    "max_rounds": cfg.max_rounds.map_or(3, |r| r.min(3)),
                    "min_round_us": cfg.min_round_duration.as_micros() as u64, "max_round_us": cfg.max_round_duration.as_micros() as u64,
                    "grace_us": cfg.grace_duration.as_micros() as u64, "read_timeout_us": cfg.read_timeout.as_micros() as u64,
                    "tcp_timeout_us": cfg.min_round_duration.as_micros() as u64,
                    "max_samples": cfg.max_samples, "max_flows": cfg.max_flows(),
                    "topo": {"paths": [{"hops": (1..dist).map(|k| json!({"addr": 100 + u16::from(k)})).collect::<Vec<_>>(), "dist": dist, "tcp": "synack"}]},
                    "net": {"hop_delay_us": 1000},
                    "seed": rng.random::<u32>(), "max_recv_calls": 200_000,
                });
                if let Some(sf) = sf.as_mut() {
                    writeln!(sf, "{sc}").unwrap();
                }
                writeln!(f, "{}", json!({"e":"cli","case":i,"ok":true,"argv":argv,"toml":toml_txt,"sc":id})).unwrap();
                stats.push(json!({"id":id,"cell":format!("{:?}-{:?}", cfg.protocol, cfg.multipath_strategy),"shape":ports,"delivered":{"genuine":1},"events":1}));
            }
            Err(msg) => {
                writeln!(f, "{}", json!({"e":"cli","case":i,"ok":false,"msg":msg,"argv":argv,"toml":toml_txt})).unwrap();
                stats.push(json!({"id":format!("clirun-{seed}-{i}"),"cell":"rejected","shape":msg.chars().take(40).collect::<String>(),"delivered":{"genuine":0},"events":1}));
            }
        }
    }
    f.flush().unwrap();
    if let Some(mut sf) = sf {
        sf.flush().unwrap();
    }
    (0, stats)
}

pub fn run(seed: u64, n: usize, family: &str, out: &str, stats_path: Option<&str>, scenarios: Option<&str>) -> i32 {
    std::panic::set_hook(Box::new(|_| {}));
    let (rc, stats) = match family {
        "layer" => run_layer(seed, n, out),
        "clirun" => run_clirun(seed, n, out, scenarios),
        f => {
            eprintln!("unknown family {f}");
            return 2;
        }
    };
    if let Some(p) = stats_path {
        std::fs::write(p, serde_json::to_string(&stats).unwrap()).unwrap();
    }
    rc
}
