//! TUI / configuration harness: drives the real trippy-tui event loop (`run_app`), key dispatch and
//! renderers over a capturing backend with scripted keys and trace updates (C17, C18), and the real
//! command-line / configuration-file layering (C16).  Logs are validated by TLC.

mod cfgdrv;
mod tuidrv;

fn arg<'a>(args: &'a [String], name: &str) -> Option<&'a str> {
    args.iter().position(|a| a == name).and_then(|i| args.get(i + 1)).map(String::as_str)
}

fn main() {
    let args: Vec<String> = std::env::args().collect();
    let rest = if args.len() > 2 { &args[2..] } else { &[][..] };
    let seed: u64 = arg(rest, "--seed").and_then(|s| s.parse().ok()).unwrap_or(1);
    let n: usize = arg(rest, "--n").and_then(|s| s.parse().ok()).unwrap_or(5);
    let out = arg(rest, "--out").unwrap_or("/dev/stdout").to_string();
    let stats = arg(rest, "--stats").map(ToString::to_string);
    let code = match args.get(1).map(String::as_str) {
        Some("tui") => tuidrv::run(seed, n, arg(rest, "--family").unwrap_or("tui"), &out, stats.as_deref()),
        Some("cfg") => cfgdrv::run(seed, n, arg(rest, "--family").unwrap_or("layer"), &out, stats.as_deref()),
        _ => {
            eprintln!("usage: vt tui|cfg --seed S --n N --out FILE [--stats FILE]");
            2
        }
    };
    std::process::exit(code);
}
