//! TUI / configuration harness: drives the real trippy-tui event loop (`run_app`), key dispatch and
//! renderers over a capturing backend with scripted keys and trace updates (C17, C18), and the real
//! command-line / configuration-file layering (C16).  Logs are validated by TLC.

mod cfgdrv;
mod dnsdrv;
mod reportdrv;
mod tuidrv;

fn arg<'a>(args: &'a [String], name: &str) -> Option<&'a str> {
    args.iter().position(|a| a == name).and_then(|i| args.get(i + 1)).map(String::as_str)
}

fn main() {
    let args: Vec<String> = std::env::args().collect();
    let rest = if args.len() > 2 { &args[2..] } else { &[][..] };
    let seed: u64 = arg(rest, "--seed").and_then(|s| s.parse().ok()).unwrap_or(1);
    let n: usize = arg(rest, "--n").and_then(|s| s.parse().ok()).unwrap_or(5);
    let out = arg(rest, "--out").unwrap_or("/dev/stdout").to_string();
    let stats = arg(rest, "--stats").map(ToString::to_string);
    let code = match args.get(1).map(String::as_str) {
        Some("tui") => tuidrv::run(seed, n, arg(rest, "--family").unwrap_or("tui"), &out, stats.as_deref()),
        Some("report") => reportdrv::run(seed, n, &out, stats.as_deref()),
        Some("dns") => dnsdrv::run(seed, n, &out, stats.as_deref()),
        Some("layout") => {
            // one horizontal split, as ratatui's Table does for its columns: explores the termination of the
            // layout solver for a given width and list of Min constraints (one process = one hash seed)
            use ratatui::layout::{Constraint, Flex, Layout, Rect};
            let width: u16 = arg(rest, "--width").and_then(|s| s.parse().ok()).unwrap_or(80);
            let mins: Vec<Constraint> = arg(rest, "--mins").unwrap_or("").split(',').filter_map(|x| x.parse::<u16>().ok()).map(Constraint::Min).collect();
            let r = Layout::horizontal(mins).flex(Flex::Start).spacing(1).split(Rect::new(0, 0, width, 1));
            println!("{:?}", r.iter().map(|x| x.width).collect::<Vec<_>>());
            0
        }
        Some("cfg") => cfgdrv::run(seed, n, arg(rest, "--family").unwrap_or("layer"), &out, stats.as_deref(), arg(rest, "--emit-scenarios")),
        _ => {
            eprintln!("usage: vt tui|cfg --seed S --n N --out FILE [--stats FILE]");
            2
        }
    };
    std::process::exit(code);
}
