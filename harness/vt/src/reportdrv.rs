//! Report-mode driver: the real report generators (JSON, CSV, Markdown table, flows) run over tracers holding
//! synthetic published rounds; their standard output is captured (fd 1 redirected to a file), parsed back and
//! logged next to the State snapshot the report was generated from.  TLC validates the log against Report.tla.

use crate::tuidrv::TraceGen;
use rand::rngs::StdRng;
use rand::{Rng, SeedableRng};
use serde_json::{json, Value};
use std::io::{Read, Seek, SeekFrom, Write};
use std::net::{IpAddr, Ipv4Addr};
use std::time::Duration;
use std::os::fd::AsRawFd;
use trippy_core::{Builder, MultipathStrategy, PortDirection, Protocol};
use trippy_tui::verif::report as rep;
use trippy_tui::verif::TraceInfo;

/// Run `f` with standard output redirected to a scratch file; returns what it wrote and whether it panicked.
fn capture<F: FnOnce() -> anyhow::Result<()>>(scratch: &mut std::fs::File, f: F) -> (String, bool, String) {
    std::io::stdout().flush().ok();
    scratch.set_len(0).ok();
    scratch.seek(SeekFrom::Start(0)).ok();
    let saved = unsafe { libc::dup(1) };
    unsafe { libc::dup2(scratch.as_raw_fd(), 1) };
    let r = std::panic::catch_unwind(std::panic::AssertUnwindSafe(f));
    std::io::stdout().flush().ok();
    unsafe {
        libc::dup2(saved, 1);
        libc::close(saved);
    }
    let mut out = String::new();
    scratch.seek(SeekFrom::Start(0)).ok();
    scratch.read_to_string(&mut out).ok();
    match r {
        Ok(Ok(())) => (out, false, String::new()),
        Ok(Err(e)) => (out, false, e.to_string()),
        Err(_) => (out, true, String::from("panic")),
    }
}

/// A decimal number as printed -> integer scaled by 10^decimals (-1: placeholder, -2: not a number of that shape).
fn scaled(s: &str, decimals: usize) -> i64 {
    let s = s.trim();
    if s == "???" || s.is_empty() {
        return -1;
    }
    match s.split_once('.') {
        Some((a, b)) if b.len() == decimals && a.chars().all(|c| c.is_ascii_digit()) && b.chars().all(|c| c.is_ascii_digit()) => {
            a.parse::<i64>().ok().zip(b.parse::<i64>().ok()).map_or(-2, |(a, b)| a * 10_i64.pow(decimals as u32) + b)
        }
        _ => -2,
    }
}

fn ips_of(cell: &str, sep: &str) -> Vec<String> {
    let c = cell.trim();
    if c == "???" || c.is_empty() {
        Vec::new()
    } else {
        c.split(sep).map(|x| x.trim().to_string()).filter(|x| !x.is_empty()).collect()
    }
}

fn parse_json(out: &str) -> Option<Vec<Value>> {
    let v: Value = serde_json::from_str(out).ok()?;
    let mut rows = Vec::new();
    for h in v.get("hops")?.as_array()? {
        let f = |k: &str| h.get(k).and_then(Value::as_str).map_or(-2, |s| scaled(s, 2));
        rows.push(json!({"ttl":h.get("ttl")?.as_u64()?,"sent":h.get("sent")?.as_u64()?,"recv":h.get("recv")?.as_u64()?,
            "ips":h.get("hosts")?.as_array()?.iter().filter_map(|x| x.get("ip").and_then(Value::as_str).map(ToString::to_string)).collect::<Vec<_>>(),
            "loss":f("loss_pct"),"last":f("last"),"avg":f("avg"),"best":f("best"),"wrst":f("worst"),"sd":f("stddev")}));
    }
    Some(rows)
}

fn parse_csv(out: &str) -> Option<Vec<Value>> {
    if out.trim().is_empty() {
        // no hop, no row: the writer emits the header with the first row
        return Some(Vec::new());
    }
    let mut lines = out.lines();
    let header: Vec<&str> = lines.next()?.split(',').collect();
    let col = |n: &str| header.iter().position(|h| *h == n);
    let (hop, ips, loss, snt, recv, last, avg, best, wrst, sd) =
        (col("Hop")?, col("IPs")?, col("Loss%")?, col("Snt")?, col("Recv")?, col("Last")?, col("Avg")?, col("Best")?, col("Wrst")?, col("StdDev")?);
    let mut rows = Vec::new();
    for l in lines {
        let c: Vec<&str> = l.split(',').collect();
        if c.len() != header.len() {
            return None;
        }
        rows.push(json!({"ttl":c[hop].parse::<u64>().ok()?,"sent":c[snt].parse::<u64>().ok()?,"recv":c[recv].parse::<u64>().ok()?,
            "ips":ips_of(c[ips], ":"),"loss":scaled(c[loss], 2),"last":scaled(c[last], 1),"avg":scaled(c[avg], 2),"best":scaled(c[best], 1),
            "wrst":scaled(c[wrst], 1),"sd":scaled(c[sd], 2)}));
    }
    Some(rows)
}

/// The Markdown table: one text line per address of a hop; the first line of a hop carries the numbers.
fn parse_markdown(out: &str) -> Option<Vec<Value>> {
    let mut rows: Vec<Value> = Vec::new();
    for (i, l) in out.lines().enumerate() {
        let c: Vec<&str> = l.trim().trim_matches('|').split('|').map(str::trim).collect();
        if i < 2 || c.len() != 11 {
            continue;
        }
        if c[0].is_empty() {
            // a continuation line: one more address of the previous hop
            if let Some(last) = rows.last_mut() {
                if !c[1].is_empty() {
                    last["ips"].as_array_mut()?.push(json!(c[1]));
                }
            }
            continue;
        }
        rows.push(json!({"ttl":c[0].parse::<u64>().ok()?,"ips":ips_of(c[1], "\n"),"loss":scaled(c[3], 1),"sent":c[4].parse::<u64>().ok()?,
            "recv":c[5].parse::<u64>().ok()?,"last":scaled(c[6], 1),"avg":scaled(c[7], 1),"best":scaled(c[8], 1),"wrst":scaled(c[9], 1),"sd":scaled(c[10], 1)}));
    }
    Some(rows)
}

/// `digraph { 0 [ label = "a" ] ... 0 -> 1 [ ] }`: the edges as pairs of node labels.
fn parse_dot(out: &str) -> Option<Vec<Vec<String>>> {
    let body = out.trim().strip_prefix("digraph {")?.strip_suffix('}')?;
    let mut labels = std::collections::HashMap::new();
    let mut edges = Vec::new();
    for line in body.lines().map(str::trim).filter(|l| !l.is_empty()) {
        if let Some((a, rest)) = line.split_once(" -> ") {
            let b = rest.split_whitespace().next()?;
            edges.push((a.trim().parse::<usize>().ok()?, b.parse::<usize>().ok()?));
        } else {
            let (idx, rest) = line.split_once(" [")?;
            let label = rest.split('"').nth(1)?;
            labels.insert(idx.trim().parse::<usize>().ok()?, label.to_string());
        }
    }
    edges.iter().map(|(a, b)| Some(vec![labels.get(a)?.clone(), labels.get(b)?.clone()])).collect()
}

pub fn run(seed: u64, n: usize, out: &str, stats_path: Option<&str>) -> i32 {
    std::panic::set_hook(Box::new(|_| {}));
    let mut f = std::io::BufWriter::new(std::fs::File::create(out).expect("create out"));
    let mut scratch = std::fs::OpenOptions::new().read(true).write(true).create(true).truncate(true).open(format!("{out}.stdout")).expect("scratch");
    let mut master = StdRng::seed_from_u64(seed ^ 0x4e90);
    let mut stats = Vec::new();
    // the real resolver; no name service exists in the sandbox, so every address stays unresolved
    let resolver = trippy_dns::DnsResolver::start(trippy_dns::Config::new(
        trippy_dns::ResolveMethod::System,
        trippy_dns::IpAddrFamily::Ipv4Only,
        Duration::from_millis(200),
        Duration::from_secs(300),
    ))
    .expect("resolver");
    for sc in 0..n {
        let mut rng = StdRng::seed_from_u64(master.random());
        let strat = *[MultipathStrategy::Classic, MultipathStrategy::Paris, MultipathStrategy::Dublin].get(rng.random_range(0..3)).unwrap();
        let first_ttl = if rng.random_range(0..4) == 0 { rng.random_range(2..6) } else { 1 };
        let target = IpAddr::V4(Ipv4Addr::new(203, 0, 113, 10));
        let tracer = Builder::new(target)
            .protocol(Protocol::Udp)
            .multipath_strategy(strat)
            .port_direction(PortDirection::new_fixed_src(5000))
            .max_flows(if strat == MultipathStrategy::Classic { 1 } else { *[1usize, 2, 64].get(rng.random_range(0..3)).unwrap() })
            .max_samples(*[0usize, 1, 10, 256].get(rng.random_range(0..4)).unwrap())
            .first_ttl(first_ttl)
            .build()
            .expect("builder");
        let mut g = TraceGen::new(tracer.clone(), &mut rng, first_ttl, strat != MultipathStrategy::Classic, target);
        let rounds = rng.random_range(1..30usize);
        for _ in 0..rounds {
            g.apply_round(&mut rng);
        }
        let info = TraceInfo::new(tracer.clone(), String::from("target0.example"));
        let st = tracer.snapshot();
        // the generators wait until the state has seen round `cycles - 1`; a real round always carries a probe,
        // the synthetic ones may be empty: ask for what the state has seen
        let Some(last_round) = st.round(trippy_core::State::default_flow_id()) else { continue };
        let rounds = last_round + 1;
        let ms = |v: f64| -> i64 { (v * 1000.0).round() as i64 };
        let hops: Vec<Value> = st
            .hops()
            .iter()
            .map(|h| {
                json!({"ttl":h.ttl(),"sent":h.total_sent(),"recv":h.total_recv(),"addrs":h.addrs().map(ToString::to_string).collect::<Vec<_>>(),
                    "last":h.last_ms().map_or(-1, ms),"avg":ms(h.avg_ms()),"best":h.best_ms().map_or(-1, ms),"wrst":h.worst_ms().map_or(-1, ms),"sd":ms(h.stddev_ms())})
            })
            .collect();
        let flows: Vec<Value> = st
            .flows()
            .iter()
            .map(|(fl, id)| json!({"id":id.0,"entries":fl.entries.iter().map(ToString::to_string).collect::<Vec<_>>()}))
            .collect();
        type Gen<'a> = Box<dyn FnOnce() -> anyhow::Result<()> + 'a>;
        let modes: Vec<(&str, Gen)> = vec![
            ("json", Box::new(|| rep::json::report(&info, rounds, &resolver))),
            ("csv", Box::new(|| rep::csv::report(&info, rounds, &resolver))),
            ("markdown", Box::new(|| rep::table::report_md(&info, rounds, &resolver))),
            ("flows", Box::new(|| rep::flows::report(&info, rounds))),
            ("dot", Box::new(|| rep::dot::report(&info, rounds))),
        ];
        for (mode, gen) in modes {
            let (text, panicked, err) = capture(&mut scratch, gen);
            let mut ev = json!({"e":"report","sc":format!("report-{seed}-{sc}"),"mode":mode,"panic":panicked,"err":err,"rounds":rounds,"hops":hops,"flows":flows,
                "rows":[],"lines":[],"parsed":true});
            if mode == "flows" {
                let lines: Vec<Value> = text
                    .lines()
                    .filter_map(|l| {
                        let rest = l.strip_prefix("flow ")?;
                        let (id, entries) = rest.split_once(':')?;
                        let entries = entries.trim();
                        Some(json!({"id":id.trim().parse::<u64>().ok()?,"entries":entries.split(", ").filter(|x| !x.is_empty()).map(ToString::to_string).collect::<Vec<_>>()}))
                    })
                    .collect();
                ev["lines"] = json!(lines);
            } else if mode == "dot" {
                match parse_dot(&text) {
                    Some(edges) => ev["edges"] = json!(edges),
                    None => {
                        ev["parsed"] = json!(false);
                        ev["edges"] = json!([]);
                        ev["text"] = json!(text.chars().take(600).collect::<String>());
                    }
                }
            } else {
                let rows = match mode {
                    "json" => parse_json(&text),
                    "csv" => parse_csv(&text),
                    _ => parse_markdown(&text),
                };
                match rows {
                    Some(r) => ev["rows"] = json!(r),
                    None => {
                        ev["parsed"] = json!(false);
                        ev["text"] = json!(text.chars().take(600).collect::<String>());
                    }
                }
            }
            writeln!(f, "{ev}").unwrap();
        }
        stats.push(json!({"id":format!("report-{seed}-{sc}"),"cell":format!("{strat:?}"),"shape":format!("r{rounds}-f{first_ttl}-h{}", hops.len()),
            "delivered":{"genuine":hops.len()},"events":5}));
    }
    f.flush().unwrap();
    let _ = std::fs::remove_file(format!("{out}.stdout"));
    if let Some(p) = stats_path {
        std::fs::write(p, serde_json::to_string(&stats).unwrap()).unwrap();
    }
    0
}
