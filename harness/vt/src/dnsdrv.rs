//! DNS cache driver: random sequences of lazy reverse lookups, flushes and pauses against the real
//! `trippy_dns::DnsResolver` (system resolver, background thread, real time).  One log line per call with the kind of
//! answer and the time in milliseconds; validated against DnsCache.tla by ConfDns (the background thread's steps are
//! silent steps of the trace specification).

use rand::rngs::StdRng;
use rand::{Rng, SeedableRng};
use serde_json::json;
use std::io::Write;
use std::net::{IpAddr, Ipv4Addr};
use std::time::{Duration, Instant};
use trippy_dns::{DnsEntry, Resolver};

pub const TTL_MS: u64 = 150;

fn kind(e: &DnsEntry) -> &'static str {
    match e {
        DnsEntry::Pending(_) => "pending",
        DnsEntry::Resolved(_) => "resolved",
        DnsEntry::NotFound(_) => "notfound",
        DnsEntry::Failed(_) => "failed",
        DnsEntry::Timeout(_) => "timeout",
    }
}

pub fn run(seed: u64, n: usize, out: &str, stats_path: Option<&str>) -> i32 {
    let mut f = std::io::BufWriter::new(std::fs::File::create(out).expect("create out"));
    let mut master = StdRng::seed_from_u64(seed ^ 0xd115);
    let mut stats = Vec::new();
    for sc in 0..n {
        let mut rng = StdRng::seed_from_u64(master.random());
        let resolver = trippy_dns::DnsResolver::start(trippy_dns::Config::new(
            trippy_dns::ResolveMethod::System,
            trippy_dns::IpAddrFamily::Ipv4Only,
            Duration::from_millis(100),
            Duration::from_millis(TTL_MS),
        ))
        .expect("resolver");
        writeln!(f, "{}", json!({"e":"dns","op":"reset","sc":format!("dns-{seed}-{sc}"),"t":0})).unwrap();
        let t0 = Instant::now();
        let steps = rng.random_range(30..70);
        let mut seen = std::collections::BTreeSet::new();
        for _ in 0..steps {
            match rng.random_range(0..10) {
                0 => {
                    resolver.flush();
                    let t = t0.elapsed().as_millis() as u64;
                    writeln!(f, "{}", json!({"e":"dns","op":"flush","t":t})).unwrap();
                }
                1..=3 => std::thread::sleep(Duration::from_millis(rng.random_range(1..30))),
                _ => {
                    let a: u8 = rng.random_range(0..5);
                    let with_as = rng.random_range(0..4) == 0;
                    let addr = IpAddr::V4(Ipv4Addr::new(192, 0, 2, 10 + a));
                    let e = if with_as { resolver.lazy_reverse_lookup_with_asinfo(addr) } else { resolver.lazy_reverse_lookup(addr) };
                    let t = t0.elapsed().as_millis() as u64;
                    seen.insert(kind(&e));
                    writeln!(f, "{}", json!({"e":"dns","op":"lookup","a":a,"ret":kind(&e),"t":t})).unwrap();
                }
            }
        }
        stats.push(json!({"id":format!("dns-{seed}-{sc}"),"cell":"dns","shape":format!("{seen:?}"),"delivered":{"genuine":steps},"events":steps}));
    }
    f.flush().unwrap();
    if let Some(p) = stats_path {
        std::fs::write(p, serde_json::to_string(&stats).unwrap()).unwrap();
    }
    0
}
